//! Simulator-owned allocator seam (C14): which address a new allocation gets is a source of
//! nondeterminism the library must not depend on. While a library call is running on a thread
//! (`in_library(true)`), small blocks freed on that thread are parked in a per-thread LIFO list per
//! exact size and handed out again for the next request of the same size made during a library
//! call on that thread: a buffer of the next call gets the address of the same-sized buffer of the
//! previous call, deterministically, however many allocations the harness itself makes in between
//! (those go to the system allocator and never see the parked blocks). Everything originates from
//! the system allocator with an identical layout class, so handing a block back is legal.
use std::alloc::{GlobalAlloc, Layout, System};
use std::cell::{Cell, UnsafeCell};

const MAX_SIZE: usize = 256;
const SLOTS: usize = 6;

struct Park {
    blocks: UnsafeCell<[[*mut u8; SLOTS]; MAX_SIZE + 1]>,
    counts: UnsafeCell<[u8; MAX_SIZE + 1]>,
}

thread_local! {
    // const-initialised, no destructor: usable from inside the allocator at any time
    static ACTIVE: Cell<bool> = const { Cell::new(false) };
    static PARK: Park = const { Park { blocks: UnsafeCell::new([[std::ptr::null_mut(); SLOTS]; MAX_SIZE + 1]), counts: UnsafeCell::new([0; MAX_SIZE + 1]) } };
}

/// Mark the calling thread as inside / outside a library call. Returns the previous state.
pub fn in_library(on: bool) -> bool {
    ACTIVE.try_with(|a| a.replace(on)).unwrap_or(false)
}

static REUSED: std::sync::atomic::AtomicU64 = std::sync::atomic::AtomicU64::new(0);

/// Number of allocations (all threads) that were given a parked (reused) address so far.
pub fn reused_total() -> u64 {
    REUSED.load(std::sync::atomic::Ordering::Relaxed)
}

/// Give the parked blocks of the calling thread back to the system allocator (end of a simulated thread).
pub fn drain() {
    let _ = PARK.try_with(|p| unsafe {
        let counts = &mut *p.counts.get();
        let blocks = &mut *p.blocks.get();
        for sz in 1..=MAX_SIZE {
            while counts[sz] > 0 {
                counts[sz] -= 1;
                System.dealloc(blocks[sz][counts[sz] as usize], Layout::from_size_align_unchecked(sz, 1));
            }
        }
    });
}

pub struct SimAlloc;

unsafe impl GlobalAlloc for SimAlloc {
    unsafe fn alloc(&self, layout: Layout) -> *mut u8 {
        let sz = layout.size();
        if sz >= 1 && sz <= MAX_SIZE && layout.align() <= 16 && ACTIVE.try_with(|a| a.get()).unwrap_or(false) {
            let hit = PARK
                .try_with(|p| {
                    let counts = &mut *p.counts.get();
                    if counts[sz] > 0 {
                        counts[sz] -= 1;
                        Some((*p.blocks.get())[sz][counts[sz] as usize])
                    } else {
                        None
                    }
                })
                .ok()
                .flatten();
            if let Some(ptr) = hit {
                REUSED.fetch_add(1, std::sync::atomic::Ordering::Relaxed);
                return ptr;
            }
        }
        // (on this platform - x86_64 glibc - every block of the system allocator is 16-byte aligned and
        // released with free(), so a parked block fits any later request of the same size and align <= 16)
        System.alloc(layout)
    }

    unsafe fn dealloc(&self, ptr: *mut u8, layout: Layout) {
        let sz = layout.size();
        if sz >= 1 && sz <= MAX_SIZE && layout.align() <= 16 {
            if ACTIVE.try_with(|a| a.get()).unwrap_or(false) {
                let parked = PARK
                    .try_with(|p| {
                        let counts = &mut *p.counts.get();
                        if (counts[sz] as usize) < SLOTS {
                            (*p.blocks.get())[sz][counts[sz] as usize] = ptr;
                            counts[sz] += 1;
                            true
                        } else {
                            false
                        }
                    })
                    .unwrap_or(false);
                if parked {
                    return;
                }
            }
        }
        System.dealloc(ptr, layout)
    }

    unsafe fn realloc(&self, ptr: *mut u8, layout: Layout, new_size: usize) -> *mut u8 {
        if layout.size() > MAX_SIZE && new_size > MAX_SIZE {
            return System.realloc(ptr, layout, new_size);
        }
        // through alloc + copy + dealloc, so that both ends go through the parking rules above
        let new_layout = Layout::from_size_align_unchecked(new_size, layout.align());
        let np = self.alloc(new_layout);
        if !np.is_null() {
            std::ptr::copy_nonoverlapping(ptr, np, layout.size().min(new_size));
            self.dealloc(ptr, layout);
        }
        np
    }
}
