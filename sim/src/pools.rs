//! Per-language word pools for workload generation, and long-lived shared interpreters.

use std::sync::OnceLock;

use text2num::lang::{Dutch, English, French, German, Italian, Portuguese, Spanish};
use text2num::Language;

pub struct Pool {
    pub code: &'static str,
    pub zero: &'static [&'static str],
    pub units: &'static [&'static str],
    pub teens: &'static [&'static str],
    pub tens: &'static [&'static str],
    pub hundreds: &'static [&'static str],
    pub mults: &'static [&'static str],
    pub ordinals: &'static [&'static str],
    pub conj: &'static [&'static str],
    pub decsep: &'static [&'static str],
    pub linking: &'static [&'static str],
    pub content: &'static [&'static str],
    pub ambiguous: &'static [&'static str],
    pub composite: &'static [&'static str],
}

pub const LANG_CODES: [&str; 7] = ["de", "en", "es", "fr", "it", "nl", "pt"];

pub static POOLS: [Pool; 7] = [
    Pool {
        code: "de",
        zero: &["null"],
        units: &["ein", "eins", "zwei", "zwo", "drei", "vier", "fünf", "sechs", "sieben", "acht", "neun"],
        teens: &["zehn", "elf", "zwölf", "dreizehn", "vierzehn", "sechzehn", "siebzehn", "neunzehn"],
        tens: &["zwanzig", "dreißig", "dreissig", "vierzig", "fünfzig", "sechzig", "siebzig", "achtzig", "neunzig"],
        hundreds: &["hundert", "einhundert", "zweihundert", "neunhundert"],
        mults: &["tausend", "million", "millionen", "milliarde", "milliarden", "billion"],
        ordinals: &[
            "erste", "erster", "zweite", "dritte", "dritten", "vierte", "siebte", "zehnte", "zwanzigste", "hundertste",
            "tausendste", "dreiundvierzigste",
        ],
        conj: &["und"],
        decsep: &["komma"],
        linking: &["also", "ja", "so", "noch", "auch", "ähm", "aber"],
        content: &["haus", "hunde", "straße", "nummer", "der", "die", "plus", "tisch", "morgen", "kommt", "wagen"],
        ambiguous: &["ein", "eine", "einen"],
        composite: &[
            "einundzwanzig", "fünfundachtzig", "einhundertfünfzehn", "zweitausend", "neunzehnhundertdreiundsiebzig",
            "dreiundfünfzigtausend", "zweiundvierzig", "hunderteins", "tausendeins",
        ],
    },
    Pool {
        code: "en",
        zero: &["zero", "o", "nought"],
        units: &["one", "two", "three", "four", "five", "six", "seven", "eight", "nine"],
        teens: &["ten", "eleven", "twelve", "thirteen", "fifteen", "sixteen", "nineteen"],
        tens: &["twenty", "thirty", "forty", "fourty", "fifty", "sixty", "seventy", "eighty", "ninety"],
        hundreds: &["hundred", "hundreds"],
        mults: &["thousand", "thousands", "million", "millions", "billion"],
        ordinals: &[
            "first", "second", "third", "fourth", "fifth", "ninth", "tenth", "twelfth", "twentieth", "hundredth",
            "thousandth", "thirds", "fifths",
        ],
        conj: &["and"],
        decsep: &["point"],
        linking: &["plus", "minus", "is", "uh", "so", "then", "well", "yes", "that's"],
        content: &["the", "cat", "dogs", "house", "pocket", "dollars", "street", "number", "arrives", "tomorrow", "morning"],
        ambiguous: &["o"],
        composite: &["twenty-five", "fifty-three", "thirty-first", "ninety-nine", "sixty-one", "twenty-second"],
    },
    Pool {
        code: "es",
        zero: &["cero"],
        units: &["uno", "un", "una", "dos", "tres", "cuatro", "cinco", "seis", "siete", "ocho", "nueve"],
        teens: &["diez", "once", "doce", "trece", "quince", "dieciséis", "dieciseis", "diecinueve"],
        tens: &[
            "veinte", "veintiuno", "veintidós", "veintinueve", "treinta", "cuarenta", "cincuenta", "sesenta", "setenta",
            "ochenta", "noventa",
        ],
        hundreds: &["cien", "ciento", "doscientos", "doscientas", "quinientos", "novecientos"],
        mults: &["mil", "millón", "millones", "millon"],
        ordinals: &[
            "primero", "primer", "primera", "segundo", "segunda", "tercero", "tercer", "cuarto", "quinta", "décimo",
            "vigésimo", "centésimo", "primeros", "doceavo", "treceavo", "veinteavo",
        ],
        conj: &["y"],
        decsep: &["coma"],
        linking: &["mas", "menos", "pues", "es", "son", "con", "entonces", "no", "sí", "o"],
        content: &["casa", "perros", "calle", "número", "el", "la", "llega", "mañana", "temprano", "gatos"],
        ambiguous: &["un", "una", "segundo"],
        composite: &[],
    },
    Pool {
        code: "fr",
        zero: &["zéro"],
        units: &["un", "deux", "trois", "quatre", "cinq", "six", "sept", "huit", "neuf"],
        teens: &["dix", "onze", "douze", "treize", "quatorze", "quinze", "seize"],
        tens: &["vingt", "trente", "quarante", "cinquante", "soixante", "septante", "huitante", "octante", "nonante", "vingts"],
        hundreds: &["cent", "cents"],
        mults: &["mille", "mil", "million", "millions", "milliard", "milliards"],
        ordinals: &[
            "premier", "première", "deuxième", "troisième", "cinquième", "neuvième", "dixième", "vingtième", "centième",
            "millième", "cinquièmes", "premiers",
        ],
        conj: &["et"],
        decsep: &["virgule"],
        linking: &["plus", "moins", "euh", "puis", "alors", "c'est", "oui", "encore"],
        content: &[
            "le", "la", "du", "l'", "maison", "chats", "rue", "numéro", "logement", "arrive", "demain", "matin", "une",
        ],
        ambiguous: &["neuf", "un", "le", "du", "numéro"],
        composite: &[
            "vingt-cinq", "quatre-vingt-dix-sept", "trente-et-un", "soixante-dix", "dix-sept", "quatre-vingts",
            "quatre-vingt", "vingt-et-unième", "soixante-quinze",
        ],
    },
    Pool {
        code: "it",
        zero: &["zero"],
        units: &["uno", "un", "una", "due", "tre", "quattro", "cinque", "sei", "sette", "otto", "nove"],
        teens: &["dieci", "undici", "dodici", "tredici", "quindici", "sedici", "diciassette", "diciannove"],
        tens: &["venti", "ventuno", "ventotto", "trenta", "quaranta", "cinquanta", "sessanta", "settanta", "ottanta", "novanta"],
        hundreds: &["cento", "duecento", "trecento", "novecento"],
        mults: &["mille", "mila", "duemila", "milione", "milioni", "miliardo", "miliardi"],
        ordinals: &[
            "primo", "prima", "secondo", "terzo", "quarta", "quinto", "decimo", "ventesimo", "centesimo", "millesimo",
            "undicesimo", "ventitreesimo",
        ],
        conj: &["e"],
        decsep: &["virgola"],
        linking: &["più", "meno", "è", "poi", "ancora", "ehm", "ben"],
        content: &["casa", "cani", "strada", "numero", "il", "la", "arriva", "domani", "mattina", "non", "secondi"],
        ambiguous: &["un", "una", "secondo", "non"],
        composite: &[
            "ventitré", "trentacinque", "centoventi", "duemilacento", "tremilaquattrocento", "quarantotto",
            "centouno", "novantanove",
        ],
    },
    Pool {
        code: "nl",
        zero: &["nul"],
        units: &["een", "één", "twee", "drie", "vier", "vijf", "zes", "zeven", "acht", "negen"],
        teens: &["tien", "elf", "twaalf", "dertien", "veertien", "zestien", "negentien"],
        tens: &["twintig", "dertig", "veertig", "vijftig", "zestig", "zeventig", "tachtig", "negentig"],
        hundreds: &["honderd", "tweehonderd", "negenhonderd"],
        mults: &["duizend", "miljoen", "miljard", "biljoen"],
        ordinals: &[
            "eerste", "tweede", "derde", "vierde", "achtste", "tiende", "twintigste", "honderdste", "drieënvijftigste",
        ],
        conj: &["en"],
        decsep: &["komma"],
        linking: &["plus", "min", "is", "dus", "dan", "ja", "uh", "dat"],
        content: &["huis", "honden", "straat", "nummer", "de", "het", "komt", "morgen", "vroeg", "katten"],
        ambiguous: &["een"],
        composite: &[
            "eenentwintig", "vijfentachtig", "tweeëntwintig", "honderdvijftien", "tweeduizend", "negenenzeventig",
            "drieëndertig", "duizendeen",
        ],
    },
    Pool {
        code: "pt",
        zero: &["zero"],
        units: &["um", "uma", "dois", "duas", "três", "tres", "quatro", "cinco", "seis", "sete", "oito", "nove"],
        teens: &["dez", "onze", "doze", "treze", "catorze", "quinze", "dezasseis", "dezesseis", "dezanove", "dezenove"],
        tens: &["vinte", "trinta", "quarenta", "cinquenta", "sessenta", "setenta", "oitenta", "noventa"],
        hundreds: &["cem", "cento", "duzentos", "duzentas", "quinhentos", "novecentos"],
        mults: &["mil", "milhão", "milhões", "bilhões", "bilhão"],
        ordinals: &[
            "primeiro", "primeira", "segundo", "terceiro", "quarto", "quinta", "décimo", "vigésimo", "centésimo",
            "primeiros", "décimas", "milésimo",
        ],
        conj: &["e"],
        decsep: &["vírgula"],
        linking: &["mais", "menos", "é", "são", "com", "não", "então", "ou", "um"],
        content: &["casa", "cães", "rua", "número", "o", "a", "chega", "amanhã", "cedo", "gatos"],
        ambiguous: &["um", "segundo"],
        composite: &[],
    },
];

pub struct Langs {
    pub facade: [Language; 7],
    pub de: German,
    pub en: English,
    pub es: Spanish,
    pub fr: French,
    pub it: Italian,
    pub nl: Dutch,
    pub pt: Portuguese,
}

impl Langs {
    pub fn new() -> Langs {
        Langs {
            facade: [
                Language::german(),
                Language::english(),
                Language::spanish(),
                Language::french(),
                Language::italian(),
                Language::dutch(),
                Language::portuguese(),
            ],
            de: German::new(),
            en: English::new(),
            es: Spanish::new(),
            fr: French::new(),
            it: Italian::new(),
            nl: Dutch::new(),
            pt: Portuguese::new(),
        }
    }
}

static LANGS: OnceLock<Langs> = OnceLock::new();

/// One set of interpreters for the whole process, shared by every worker thread: this is
/// the usage the documentation promises ("stateless so you can reuse and share them").
pub fn langs() -> &'static Langs {
    LANGS.get_or_init(Langs::new)
}

/// Expand `$body` with `$l` bound to the interpreter `(lang index, concrete?)`.
#[macro_export]
macro_rules! with_lang {
    ($langs:expr, $idx:expr, $concrete:expr, $l:ident => $body:expr) => {{
        let __ls: &$crate::pools::Langs = $langs;
        match ($idx as usize, $concrete as bool) {
            (0, true) => {
                let $l = &__ls.de;
                $body
            }
            (1, true) => {
                let $l = &__ls.en;
                $body
            }
            (2, true) => {
                let $l = &__ls.es;
                $body
            }
            (3, true) => {
                let $l = &__ls.fr;
                $body
            }
            (4, true) => {
                let $l = &__ls.it;
                $body
            }
            (5, true) => {
                let $l = &__ls.nl;
                $body
            }
            (6, true) => {
                let $l = &__ls.pt;
                $body
            }
            (i, _) => {
                let $l = &__ls.facade[i % 7];
                $body
            }
        }
    }};
}

pub const THRESHOLDS: [&str; 18] = [
    "0", "1", "3", "10", "100", "-1", "inf", "nan", "0", "10", "2.5", "0.5", "1e300", "-0", "5e-324", "9", "11", "1000",
];

pub fn threshold_of(s: &str) -> f64 {
    match s {
        "inf" => f64::INFINITY,
        "nan" => f64::NAN,
        other => other.parse().unwrap_or(0.0),
    }
}

pub const PUNCT: [&str; 23] = [
    "\u{1}", "\u{1f}", "\u{7f}",
    ",", ".", ";", "…", "!", "?", ":", ", ", ". ", " ; ", "...", "--", "'", "''", "(", "/", "\u{2010}", "\u{2011}", "–", "—",
];
pub const GLUE: [&str; 8] = [" ", "  ", "\t", "-", "\n", "\u{a0}", "", "\u{2003}"];

/// Like `with_lang!`, but with an interpreter built for this run only: runs stay independent
/// of each other (and of the other worker threads), so every violation replays from its own
/// case. Long-lived, shared interpreters are C14's business.
#[macro_export]
macro_rules! with_fresh_lang {
    ($idx:expr, $concrete:expr, $l:ident => $body:expr) => {{
        use text2num::lang::{Dutch, English, French, German, Italian, Portuguese, Spanish};
        use text2num::Language;
        match ($idx as usize % 7, $concrete as bool) {
            (0, true) => {
                let $l = &German::new();
                $body
            }
            (1, true) => {
                let $l = &English::new();
                $body
            }
            (2, true) => {
                let $l = &Spanish::new();
                $body
            }
            (3, true) => {
                let $l = &French::new();
                $body
            }
            (4, true) => {
                let $l = &Italian::new();
                $body
            }
            (5, true) => {
                let $l = &Dutch::new();
                $body
            }
            (6, true) => {
                let $l = &Portuguese::new();
                $body
            }
            (i, _) => {
                let __f = match i {
                    0 => Language::german(),
                    1 => Language::english(),
                    2 => Language::spanish(),
                    3 => Language::french(),
                    4 => Language::italian(),
                    5 => Language::dutch(),
                    _ => Language::portuguese(),
                };
                let $l = &__f;
                $body
            }
        }
    }};
}
