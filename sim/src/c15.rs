//! C15 — lazy stream contract. The simulator owns the token source (EOF at an arbitrary
//! instant, pull log), the tokens (hint flags) and the consumer (demand schedule,
//! cancellation, polling past the end).

use serde::{Deserialize, Serialize};
use text2num::{find_numbers, find_numbers_iter, LangInterpreter};

use crate::driver::{guarded, Check, RunResult, Stats, Violation};
use crate::pools::{threshold_of, Pool, POOLS, THRESHOLDS};
use crate::rng::{Fp, Rng};
use crate::stream::*;

#[derive(Clone, Debug, Serialize, Deserialize)]
pub struct Case {
    pub lang: usize,
    pub concrete: bool,
    pub thr: String,
    pub toks: Vec<TokSpec>,
    /// consumer schedule: number of `next()` requests before the iterator is dropped
    pub requests: usize,
    /// further requests after the first `None`
    pub extra_polls: usize,
    /// the source reports its exact remaining length via size_hint
    #[serde(default)]
    pub exact_size: bool,
    /// a consumer that advances with Iterator::nth (skip / step_by go through it): the skips
    #[serde(default)]
    pub nth_schedule: Vec<usize>,
}

pub struct C15;

fn numberish(p: &Pool, lower: &str) -> bool {
    p.zero.contains(&lower)
        || p.units.contains(&lower)
        || p.teens.contains(&lower)
        || p.tens.contains(&lower)
        || p.hundreds.contains(&lower)
        || p.mults.contains(&lower)
        || p.conj.contains(&lower)
        || p.decsep.contains(&lower)
        || p.composite.contains(&lower)
}

fn viol(oracle: &str, detail: String, events: u64) -> RunResult {
    RunResult {
        fingerprint: 0,
        nontrivial: true,
        events,
        violation: Some(Violation { oracle: oracle.to_string(), detail }),
    }
}

fn batch<L: LangInterpreter>(l: &L, toks: &[TokSpec], thr: f64, log: &Log) -> Result<Vec<Occ>, String> {
    guarded(|| {
        find_numbers(toks.iter().enumerate().map(|(id, spec)| Tk { id, spec, log }), l, thr)
            .into_iter()
            .map(Occ::from)
            .collect()
    })
}

struct LazyRun {
    got: Vec<Occ>,
    pulls_after: Vec<usize>,
    polls_returned_some: usize,
    served_without_pull: usize,
}

fn lazy<L: LangInterpreter>(
    l: &L,
    toks: &[TokSpec],
    thr: f64,
    log: &Log,
    max_requests: usize,
    extra_polls: usize,
    exact_size: bool,
) -> Result<LazyRun, String> {
    guarded(|| {
        let src = SimSource { toks, next: 0, log, exact_size };
        let mut it = find_numbers_iter(src, l, thr);
        let mut got = vec![];
        let mut pulls_after = vec![];
        let mut served_without_pull = 0;
        let mut ended = false;
        for k in 0..max_requests {
            let before = log.pulls.get() + log.eof_seen.get();
            log.ev(EV_NEXT, k as u64);
            log.in_request.set(true);
            let o = it.next();
            log.in_request.set(false);
            match o {
                Some(o) => {
                    log.ev(EV_GOT, o.start as u64);
                    if log.pulls.get() + log.eof_seen.get() == before {
                        served_without_pull += 1;
                    }
                    got.push(Occ::from(o));
                    pulls_after.push(log.pulls.get());
                }
                None => {
                    log.ev(EV_GOT, u64::MAX);
                    ended = true;
                    break;
                }
            }
        }
        let mut polls_returned_some = 0;
        if ended {
            for _ in 0..extra_polls {
                log.in_request.set(true);
                let o = it.next();
                log.in_request.set(false);
                if o.is_some() {
                    polls_returned_some += 1;
                }
            }
        }
        log.ev(EV_DROP, 0);
        drop(it);
        LazyRun { got, pulls_after, polls_returned_some, served_without_pull }
    })
}

fn exec<L: LangInterpreter>(l: &L, case: &Case, stats: &mut Stats) -> RunResult {
    let thr = threshold_of(&case.thr);
    let toks = &case.toks[..];
    let n = toks.len();
    let pool = &POOLS[case.lang % 7];

    let log_b = Log::new();
    let b = batch(l, toks, thr, &log_b);
    let log_l = Log::new();
    let lz = lazy(l, toks, thr, &log_l, usize::MAX, case.extra_polls, case.exact_size);
    let events = log_b.seq.get() + log_l.seq.get();

    let (b, lz) = match (b, lz) {
        (Err(_), Err(_)) => {
            stats.hit("probe.both_panicked_skipped");
            return RunResult { fingerprint: 1, nontrivial: false, events, violation: None };
        }
        (Err(p), Ok(_)) => return viol("O1-lazy-eq-batch", format!("batch panicked ({p}) but lazy did not; stream: {}", fmt_toks(toks)), events),
        (Ok(_), Err(p)) => return viol("O1-lazy-eq-batch", format!("lazy panicked ({p}) but batch did not; stream: {}", fmt_toks(toks)), events),
        (Ok(b), Ok(lz)) => (b, lz),
    };

    // O1 lazy == batch
    if b != lz.got {
        return viol(
            "O1-lazy-eq-batch",
            format!("lang={} thr={} stream: {} | batch: {} | lazy: {}", pool.code, case.thr, fmt_toks(toks), fmt_occs(&b), fmt_occs(&lz.got)),
            events,
        );
    }
    // O3 ends and stays ended
    if lz.polls_returned_some > 0 {
        return viol("O3-fused-end", format!("{} requests after None returned Some; stream: {}", lz.polls_returned_some, fmt_toks(toks)), events);
    }
    if case.extra_polls > 0 {
        stats.hit("fault.poll_past_end");
    }
    // O4 demand
    if log_l.pulls_outside_request.get() > 0 {
        return viol("O4-no-pull-outside-request", format!("{} pulls outside a consumer request", log_l.pulls_outside_request.get()), events);
    }
    let t0 = if case.thr == "0" {
        Ok(b.clone())
    } else {
        let scratch = Log::new();
        batch(l, toks, 0.0, &scratch)
    };
    if let Ok(t0) = &t0 {
        for (k, o) in lz.got.iter().enumerate() {
            let bound = match t0.iter().position(|x| x.start == o.start) {
                Some(j) if j + 2 < t0.len() => t0[j + 2].end,
                Some(_) => n,
                None => {
                    stats.hit("probe.occurrence_not_in_threshold0_reading");
                    n
                }
            };
            if bound < n {
                stats.hit("probe.lookahead_bound_tight");
            }
            if lz.pulls_after[k] > bound {
                return viol(
                    "O4-bounded-lookahead",
                    format!(
                        "lang={} thr={} returning occurrence #{k} {} after {} pulls, bound (end of second number after it at threshold 0) = {bound}; stream: {}",
                        pool.code,
                        case.thr,
                        fmt_occs(std::slice::from_ref(o)),
                        lz.pulls_after[k],
                        fmt_toks(toks)
                    ),
                    events,
                );
            }
        }
    }
    if lz.served_without_pull > 0 {
        stats.add("probe.request_served_from_queue", lz.served_without_pull as u64);
    }

    // O2 cancellation: k requests then drop
    let log_c = Log::new();
    match lazy(l, toks, thr, &log_c, case.requests, 0, case.exact_size) {
        Ok(c) => {
            let want = &b[..case.requests.min(b.len())];
            if c.got != want {
                return viol(
                    "O2-cancellation-prefix",
                    format!("after {} requests consumer holds {} but batch prefix is {}; stream: {}", case.requests, fmt_occs(&c.got), fmt_occs(want), fmt_toks(toks)),
                    events,
                );
            }
            if log_c.pulls_outside_request.get() > 0 {
                return viol("O4-no-pull-outside-request", "pull outside a request (cancelled run, includes construction and drop)".into(), events);
            }
            if case.requests <= b.len() {
                stats.hit("fault.consumer_cancel");
                if log_c.pulls.get() < n {
                    stats.hit("probe.cancel_left_input_unread");
                }
            }
        }
        Err(p) => return viol("O2-cancellation-prefix", format!("cancelled lazy run panicked: {p}"), events),
    }

    // O8 a consumer that uses the iterator adaptors gets the same occurrences
    if !case.nth_schedule.is_empty() {
        let log_n = Log::new();
        let r = guarded(|| {
            let src = SimSource { toks, next: 0, log: &log_n, exact_size: case.exact_size };
            log_n.in_request.set(true);
            let mut it = find_numbers_iter(src, l, thr);
            let mut got: Vec<(usize, Option<Occ>)> = vec![];
            let mut idx = 0usize;
            for &n in &case.nth_schedule {
                let o = it.nth(n).map(Occ::from);
                let done = o.is_none();
                got.push((idx + n, o));
                idx += n + 1;
                if done {
                    break;
                }
            }
            // whatever is left, counted
            let rest = it.count();
            (got, idx, rest)
        });
        match r {
            Ok((got, idx, rest)) => {
                for (want_idx, o) in &got {
                    let want = b.get(*want_idx);
                    if o.as_ref() != want {
                        return viol(
                            "O8-adaptors-agree",
                            format!("lang={} thr={} nth schedule {:?}: item #{want_idx} came back as {:?}, batch has {:?}; stream: {}", pool.code, case.thr, case.nth_schedule, o.as_ref().map(|x| x.text.clone()), want.map(|x| x.text.clone()), fmt_toks(toks)),
                            events,
                        );
                    }
                }
                let ended = got.last().map(|g| g.1.is_none()).unwrap_or(false);
                if !ended && idx + rest != b.len() && idx <= b.len() {
                    return viol(
                        "O8-adaptors-agree",
                        format!("lang={} thr={} nth schedule {:?} then count(): {} items consumed + {} counted, batch has {}; stream: {}", pool.code, case.thr, case.nth_schedule, idx, rest, b.len(), fmt_toks(toks)),
                        events,
                    );
                }
                stats.hit("fault.consumer_uses_nth");
            }
            Err(p) => return viol("O8-adaptors-agree", format!("nth/count consumer panicked: {p}"), events),
        }
        // the same stream consumed by value through for_each: same items, same bounded look-ahead
        let log_f = Log::new();
        let r = guarded(|| {
            let src = SimSource { toks, next: 0, log: &log_f, exact_size: case.exact_size };
            log_f.in_request.set(true);
            let it = find_numbers_iter(src, l, thr);
            let mut got: Vec<(Occ, usize)> = vec![];
            it.for_each(|o| got.push((Occ::from(o), log_f.pulls.get())));
            got
        });
        match r {
            Ok(got) => {
                let items: Vec<Occ> = got.iter().map(|g| g.0.clone()).collect();
                if items != b {
                    return viol("O8-adaptors-agree", format!("lang={} thr={} for_each yields {} but batch has {}; stream: {}", pool.code, case.thr, fmt_occs(&items), fmt_occs(&b), fmt_toks(toks)), events);
                }
                if let Ok(t0) = &t0 {
                    for (o, pulls) in &got {
                        let bound = match t0.iter().position(|x| x.start == o.start) {
                            Some(j) if j + 2 < t0.len() => t0[j + 2].end,
                            _ => n,
                        };
                        if *pulls > bound {
                            return viol(
                                "O4-bounded-lookahead",
                                format!("lang={} thr={} consumed through for_each: occurrence {} handed over after {} pulls, bound {}; stream: {}", pool.code, case.thr, fmt_occs(std::slice::from_ref(o)), pulls, bound, fmt_toks(toks)),
                                events,
                            );
                        }
                    }
                }
            }
            Err(p) => return viol("O8-adaptors-agree", format!("for_each consumer panicked: {p}"), events),
        }
    }

    // O5 separation hint
    let prev_nonglue: Vec<Option<usize>> = {
        let mut v = Vec::with_capacity(n);
        let mut last = None;
        for (i, t) in toks.iter().enumerate() {
            v.push(last);
            if !t.is_glue() {
                last = Some(i);
            }
        }
        v
    };
    for (i, t) in toks.iter().enumerate() {
        if t.separated && !t.is_glue() {
            stats.hit("fault.hint_separated");
            if let Some(pi) = prev_nonglue[i] {
                if pool.decsep.contains(&toks[pi].lower.as_str()) {
                    stats.hit("probe.hint_after_decimal_separator");
                }
                if pool.conj.contains(&toks[pi].lower.as_str()) {
                    stats.hit("probe.hint_after_conjunction");
                }
            }
            if let Some(o) = b.iter().find(|o| o.start < i && i < o.end) {
                return viol(
                    "O5-separated-not-joined",
                    format!("lang={} thr={} token #{i} declares itself unrelated to its predecessor but {} covers both; stream: {}", pool.code, case.thr, fmt_occs(std::slice::from_ref(o)), fmt_toks(toks)),
                    events,
                );
            }
        }
        if t.nan && !t.is_glue() {
            stats.hit("fault.hint_nan");
            // O7
            if let Some(o) = b.iter().find(|o| o.start <= i && i < o.end) {
                return viol(
                    "O7-nan-excluded",
                    format!("lang={} thr={} token #{i} is 'not a number part' but lies inside {}; stream: {}", pool.code, case.thr, fmt_occs(std::slice::from_ref(o)), fmt_toks(toks)),
                    events,
                );
            }
        }
    }
    for &(i, shown) in log_b.sep_queries.borrow().iter() {
        if prev_nonglue[i] != Some(shown) {
            return viol(
                "O5-previous-shown",
                format!("token #{i} was asked nt_separated(previous = #{shown}) but its predecessor is {:?}; stream: {}", prev_nonglue[i], fmt_toks(toks)),
                events,
            );
        }
    }

    // O6 comma equivalence
    if toks.iter().any(|t| t.separated && !t.is_glue()) {
        let mut toks2 = Vec::with_capacity(n + 4);
        let mut map = Vec::with_capacity(n);
        for t in toks {
            if t.separated && !t.is_glue() {
                toks2.push(TokSpec::word(","));
            }
            map.push(toks2.len());
            let mut t2 = t.clone();
            t2.separated = false;
            toks2.push(t2);
        }
        let scratch = Log::new();
        match batch(l, &toks2, thr, &scratch) {
            Ok(b2) => {
                let mapped: Vec<Occ> = b
                    .iter()
                    .map(|o| Occ { start: map[o.start], end: map[o.end - 1] + 1, ..o.clone() })
                    .collect();
                if mapped != b2 {
                    return viol(
                        "O6-separated-eq-comma",
                        format!(
                            "lang={} thr={} with hints: {} => {} | with commas: {} => {}",
                            pool.code,
                            case.thr,
                            fmt_toks(toks),
                            fmt_occs(&b),
                            fmt_toks(&toks2),
                            fmt_occs(&b2)
                        ),
                        events,
                    );
                }
                stats.hit("probe.comma_equivalence_checked");
            }
            Err(p) => {
                return viol("O6-separated-eq-comma", format!("comma variant panicked ({p}) but hinted stream did not; stream: {}", fmt_toks(&toks2)), events)
            }
        }
    }

    // reach probes
    if let Some(last) = toks.iter().rev().find(|t| !t.is_glue()) {
        if numberish(pool, &last.lower) {
            stats.hit("fault.eof_inside_number");
        }
    }
    if b.iter().any(|o| o.text.contains(',') || o.text.contains('.')) {
        stats.hit("probe.decimal_reported");
    }
    if b.iter().any(|o| o.is_ordinal) {
        stats.hit("probe.ordinal_reported");
    }
    if let Ok(t0) = &t0 {
        if t0.len() > b.len() {
            stats.hit("probe.small_number_dropped_by_threshold");
        }
    }

    let mut fp = Fp::new();
    fp.u64(log_b.fp.get());
    fp.u64(log_l.fp.get());
    fp.u64(log_c.fp.get());
    for o in &b {
        fp.u64(o.start as u64);
        fp.u64(o.end as u64);
        fp.str(&o.text);
    }
    RunResult { fingerprint: fp.finish(), nontrivial: !b.is_empty(), events: events + log_c.seq.get(), violation: None }
}

impl Check for C15 {
    type Case = Case;
    fn id(&self) -> &'static str {
        "C15"
    }

    fn generate(&self, rng: &mut Rng) -> Case {
        let lang = rng.below(7);
        let concrete = rng.chance(1, 2);
        let thr = (*rng.pick(&THRESHOLDS)).to_string();
        let pool = &POOLS[lang];
        let cfg = GenCfg::swarm(rng);
        // one run in 48 is a long stream (positions beyond 64, 128, 256)
        let len = match rng.below(480) {
            0 => rng.range(800, 2500),
            1..=10 => rng.range(60, 300),
            _ => rng.range(0, 40),
        };
        let extra = rng.range(0, 8);
        let mut toks = gen_stream(rng, pool, &cfg, len + extra);
        // EOF at an arbitrary instant, biased to land inside in-flight state
        let cut = if rng.chance(1, 2) {
            let cands: Vec<usize> = (1..=toks.len()).filter(|&i| numberish(pool, &toks[i - 1].lower)).collect();
            if cands.is_empty() {
                rng.range(0, toks.len())
            } else {
                *rng.pick(&cands)
            }
        } else {
            rng.range(0, toks.len())
        };
        toks.truncate(cut);
        // hint faults
        let hint_pct = *rng.pick(&[0u32, 0, 5, 15, 40]);
        let nan_pct = *rng.pick(&[0u32, 0, 0, 5, 20]);
        let mut prev_numberish = false;
        for t in toks.iter_mut() {
            if t.is_glue() {
                continue;
            }
            let boost = if prev_numberish { 2 } else { 1 };
            if hint_pct > 0 && rng.chance(hint_pct * boost, 100) {
                t.separated = true;
            }
            if nan_pct > 0 && rng.chance(nan_pct, 100) {
                t.nan = true;
            }
            prev_numberish = numberish(pool, &t.lower);
        }
        let requests = *rng.pick(&[0usize, 1, 1, 2, 3, 5, 1000, 1000]);
        let extra_polls = rng.below(4);
        {
            let exact_size = rng.chance(1, 2);
            let nth_schedule: Vec<usize> = if rng.chance(1, 3) { (0..rng.range(1, 4)).map(|_| *rng.pick(&[0usize, 0, 1, 1, 2, 3])).collect() } else { vec![] };
            Case { lang, concrete, thr, toks, requests, extra_polls, exact_size, nth_schedule }
        }
    }

    fn execute(&self, case: &Case, stats: &mut Stats) -> RunResult {
        crate::with_fresh_lang!(case.lang, case.concrete, l => exec(l, case, stats))
    }

    fn shrink(&self, case: &Case) -> Vec<Case> {
        let mut out = vec![];
        let n = case.toks.len();
        if n > 3 {
            out.push(Case { toks: case.toks[n / 2..].to_vec(), ..case.clone() });
            out.push(Case { toks: case.toks[..n / 2].to_vec(), ..case.clone() });
        }
        for i in 0..n {
            let mut c = case.clone();
            c.toks.remove(i);
            out.push(c);
        }
        for i in 0..n {
            if case.toks[i].separated {
                let mut c = case.clone();
                c.toks[i].separated = false;
                out.push(c);
            }
            if case.toks[i].nan {
                let mut c = case.clone();
                c.toks[i].nan = false;
                out.push(c);
            }
            if case.toks[i].text != case.toks[i].lower {
                let mut c = case.clone();
                c.toks[i].text = c.toks[i].lower.clone();
                out.push(c);
            }
        }
        if case.thr != "0" {
            out.push(Case { thr: "0".into(), ..case.clone() });
        }
        if case.concrete {
            out.push(Case { concrete: false, ..case.clone() });
        }
        if case.extra_polls > 0 {
            out.push(Case { extra_polls: 0, ..case.clone() });
        }
        if case.exact_size {
            out.push(Case { exact_size: false, ..case.clone() });
        }
        if !case.nth_schedule.is_empty() {
            out.push(Case { nth_schedule: vec![], ..case.clone() });
            for i in 0..case.nth_schedule.len() {
                let mut c = case.clone();
                c.nth_schedule.remove(i);
                out.push(c);
            }
        }
        if case.requests > 0 {
            out.push(Case { requests: 0, ..case.clone() });
            out.push(Case { requests: case.requests.min(6) - 1, ..case.clone() });
        }
        out
    }

    fn rule(&self) -> String {
        "A run is one simulated token stream (0-48 tokens from per-language pools incl. structured number phrases, \
         punctuation, glue tokens, upper-case text; per-run swarm weights) cut at a seeded EOF instant biased to fall \
         inside a number, with seeded separated/nan hint flags, one language (facade or concrete type), one threshold \
         of {0,1,3,10,100,-1,inf,NaN}, and a consumer schedule (k requests then drop, m polls past the end). \
         Non-trivial = the batch search reports at least one occurrence; distinct = distinct fingerprints of the full \
         seam event logs (pulls, text reads, hint queries, requests) plus reported occurrences (bitmap sketch)."
            .into()
    }

    fn assumptions(&self) -> Vec<String> {
        vec![
            "hint flags are only placed on word/punctuation tokens, never on whitespace-only or \"-\" glue tokens (the scanner skips those before looking at hints)".into(),
            "the token source is fused (returns None forever after the first None)".into(),
            "a panic on both the lazy and the batch side is counted and skipped: totality is C03, which is not claimed".into(),
            "the look-ahead bound uses the threshold-0 reading of the same stream, as the property states".into(),
            "seeded sampling, not proof".into(),
        ]
    }

    fn real_components(&self) -> Vec<&'static str> {
        vec![
            "text2num::find_numbers_iter / FindNumbers (iterator path)",
            "text2num::find_numbers (batch path)",
            "WordToDigitParser, NumTracker",
            "all seven interpreters via Language and via the concrete types",
        ]
    }

    fn stub_components(&self) -> Vec<&'static str> {
        vec!["token source (SimSource)", "token type (Tk: text, lowercase, hints)", "consumer (request schedule)"]
    }

    fn fault_kinds(&self) -> Vec<&'static str> {
        vec![
            "fault.eof_inside_number",
            "fault.consumer_cancel",
            "fault.poll_past_end",
            "fault.hint_separated",
            "fault.hint_nan",
            "fault.consumer_uses_nth",
        ]
    }
}
