//! Generic batch driver: seeded generation, parallel execution with index-ordered
//! reduction, minimisation, replay files, known findings and evidence.

use std::collections::BTreeMap;
use std::io::Write;
use std::panic::{catch_unwind, AssertUnwindSafe};
use std::path::{Path, PathBuf};
use std::sync::atomic::{AtomicBool, AtomicU64, Ordering};
use std::sync::Mutex;
use std::time::Instant;

use serde::de::DeserializeOwned;
use serde::Serialize;
use serde_json::{json, Value};

use crate::rng::{run_seed, Rng};

/// Root of the verification tree: `$VERIF_DIR`, else derived from the executable path
/// (`<verif>/sim/target/release/t2n-sim`).
pub fn verif_dir() -> PathBuf {
    if let Ok(d) = std::env::var("VERIF_DIR") {
        return PathBuf::from(d);
    }
    let exe = std::env::current_exe().expect("current_exe");
    exe.ancestors().nth(4).map(|p| p.to_path_buf()).unwrap_or_else(|| PathBuf::from("/verif"))
}

#[derive(Default, Clone, Debug)]
pub struct Stats(pub BTreeMap<&'static str, u64>);

impl Stats {
    pub fn hit(&mut self, k: &'static str) {
        *self.0.entry(k).or_insert(0) += 1;
    }
    pub fn add(&mut self, k: &'static str, n: u64) {
        *self.0.entry(k).or_insert(0) += n;
    }
    pub fn merge(&mut self, o: &Stats) {
        for (k, v) in &o.0 {
            *self.0.entry(k).or_insert(0) += v;
        }
    }
    pub fn get(&self, k: &str) -> u64 {
        self.0.get(k).copied().unwrap_or(0)
    }
}

#[derive(Clone, Debug)]
pub struct Violation {
    /// Stable identifier of the oracle clause that failed (minimisation keeps it fixed).
    pub oracle: String,
    pub detail: String,
}

#[derive(Clone, Debug)]
pub struct RunResult {
    pub fingerprint: u64,
    pub nontrivial: bool,
    pub events: u64,
    pub violation: Option<Violation>,
}

pub trait Check: Sync + Send {
    type Case: Clone + Serialize + DeserializeOwned + Send + 'static;
    fn id(&self) -> &'static str;
    fn generate(&self, rng: &mut Rng) -> Self::Case;
    /// Pure function of `case` and the code under test.
    fn execute(&self, case: &Self::Case, stats: &mut Stats) -> RunResult;
    /// Simpler variants of `case`, most aggressive first.
    fn shrink(&self, case: &Self::Case) -> Vec<Self::Case>;
    /// What a known-findings entry is matched against (the minimised case itself).
    fn finding_key(&self, case: &Self::Case, v: &Violation) -> String {
        format!(
            "oracle={} case={}",
            v.oracle,
            serde_json::to_string(case).unwrap_or_default()
        )
    }
    /// Canonical failing inputs of the findings listed as open in KNOWN_FINDINGS.txt, executed at
    /// the start of every batch so that each listed finding is reported on every run.
    fn probe_cases(&self) -> Vec<Self::Case> {
        vec![]
    }
    fn rule(&self) -> String;
    fn assumptions(&self) -> Vec<String>;
    fn real_components(&self) -> Vec<&'static str>;
    fn stub_components(&self) -> Vec<&'static str>;
    fn fault_kinds(&self) -> Vec<&'static str>;
}

#[derive(Clone, Debug)]
pub struct BatchCfg {
    pub tier: String,
    pub seed: u64,
    /// Fixed number of runs (quick) ...
    pub runs: u64,
    /// ... or, if > 0, a wall-clock budget in seconds within which as many runs as possible
    /// (up to `runs`) are explored.
    pub budget_s: f64,
    pub workers: usize,
    /// log2 of the size of the distinct-fingerprint bitmap
    pub bitmap_log2: u32,
    /// Only emit per-run fingerprints (determinism self test)
    pub hashes_only: bool,
}

pub struct BatchOutcome {
    pub evaluations: u64,
    pub distinct_nontrivial: u64,
    pub nontrivial: u64,
    pub events: u64,
    pub stats: Stats,
    pub wall_s: f64,
    pub violations: u64,
    pub known: Vec<String>,
    pub samples: Vec<Value>,
    pub out_lines: Vec<String>,
    pub combined_hash: u64,
}

/// set by the harness's panic hook when the hook probe panic reaches it
pub static LAST_PANIC_PROBE: Mutex<String> = Mutex::new(String::new());

thread_local! {
    pub static LAST_PANIC: std::cell::RefCell<String> = const { std::cell::RefCell::new(String::new()) };
}

/// Install a panic hook that prints nothing (injected client crashes and caught library
/// panics must not reach fd 2) but remembers the message for violation details.
pub fn install_quiet_panic_hook() {
    std::panic::set_hook(Box::new(|info| {
        let msg = if let Some(s) = info.payload().downcast_ref::<&str>() {
            (*s).to_string()
        } else if let Some(s) = info.payload().downcast_ref::<String>() {
            s.clone()
        } else {
            "<non-string panic>".to_string()
        };
        let loc = info
            .location()
            .map(|l| format!("{}:{}", l.file(), l.line()))
            .unwrap_or_default();
        if msg.contains("t2n-hook-probe") {
            if let Ok(mut g) = LAST_PANIC_PROBE.lock() {
                *g = msg.clone();
            }
        }
        let _ = LAST_PANIC.try_with(|p| {
            if let Ok(mut p) = p.try_borrow_mut() {
                *p = format!("{msg} @ {loc}");
            }
        });
    }));
}

pub fn last_panic() -> String {
    LAST_PANIC.try_with(|p| p.borrow().clone()).unwrap_or_default()
}

/// Run `f`, converting a panic into `Err(message)`.
pub fn guarded<R>(f: impl FnOnce() -> R) -> Result<R, String> {
    match catch_unwind(AssertUnwindSafe(f)) {
        Ok(r) => Ok(r),
        Err(_) => Err(last_panic()),
    }
}

pub struct Known {
    pub open: Vec<(String, String)>, // (property, key)
}

impl Known {
    pub fn load() -> Known {
        let p = verif_dir().join("KNOWN_FINDINGS.txt");
        let mut open = vec![];
        if let Ok(s) = std::fs::read_to_string(p) {
            for line in s.lines() {
                let line = line.trim();
                if let Some(rest) = line.strip_prefix("open: property=") {
                    if let Some((prop, key)) = rest.split_once(' ') {
                        open.push((prop.to_string(), key.trim().to_string()));
                    }
                }
            }
        }
        Known { open }
    }
    pub fn matches(&self, prop: &str, key: &str) -> bool {
        self.open.iter().any(|(p, k)| p == prop && k == key)
    }
}

fn execute_guarded<C: Check>(check: &C, case: &C::Case, stats: &mut Stats) -> RunResult {
    match guarded(|| check.execute(case, stats)) {
        Ok(r) => r,
        Err(msg) => RunResult {
            fingerprint: 0,
            nontrivial: true,
            events: 0,
            violation: Some(Violation {
                oracle: "harness-panic".into(),
                detail: format!("the harness itself panicked outside a guarded library call: {msg}"),
            }),
        },
    }
}

/// Greedy delta debugging over the explicit case description.
pub fn minimise<C: Check>(check: &C, case: &C::Case, oracle: &str) -> (C::Case, Violation, u64) {
    let mut cur = case.clone();
    let mut scratch = Stats::default();
    let mut cur_v = match execute_guarded(check, &cur, &mut scratch).violation {
        Some(v) => v,
        // the case no longer fails when re-executed here (its outcome depends on what this thread or
        // process ran before): hand it back unminimised, the confirmation step decides what to do
        None => {
            return (
                cur,
                Violation { oracle: oracle.to_string(), detail: "did not fail again when re-executed in this process".into() },
                0,
            )
        }
    };
    let mut execs = 0u64;
    let start = Instant::now();
    'outer: loop {
        if execs > 200_000 || start.elapsed().as_secs() > 120 {
            break;
        }
        for cand in check.shrink(&cur) {
            execs += 1;
            let r = execute_guarded(check, &cand, &mut scratch);
            if let Some(v) = r.violation {
                if v.oracle == oracle {
                    cur = cand;
                    cur_v = v;
                    continue 'outer;
                }
            }
        }
        break;
    }
    (cur, cur_v, execs)
}

pub fn replay_dir() -> PathBuf {
    let d = verif_dir().join("replays");
    let _ = std::fs::create_dir_all(&d);
    d
}

pub fn write_replay<C: Check>(
    check: &C,
    seed: u64,
    index: u64,
    case: &C::Case,
    v: &Violation,
    original_len_note: &str,
) -> PathBuf {
    let path = replay_dir().join(format!("{}-{}-{}.json", check.id(), seed, index));
    let doc = json!({
        "property": check.id(),
        "seed": seed,
        "run_index": index,
        "oracle": v.oracle,
        "detail": v.detail,
        "minimisation": original_len_note,
        "case": case,
    });
    std::fs::write(&path, serde_json::to_string_pretty(&doc).unwrap()).expect("write replay");
    path
}

/// `./check replay <file>`: a pure function of the file and the code.
pub fn replay_file<C: Check>(check: &C, doc: &Value) -> i32 {
    let case: C::Case = match serde_json::from_value(doc["case"].clone()) {
        Ok(c) => c,
        Err(e) => {
            eprintln!("harness error: cannot parse case: {e}");
            return 2;
        }
    };
    let mut st = Stats::default();
    let r = execute_guarded(check, &case, &mut st);
    match r.violation {
        Some(v) => {
            println!("REPLAY property={} oracle={} detail={}", check.id(), v.oracle, v.detail);
            println!("REPLAY-RESULT violation-reproduced oracle={}", v.oracle);
            1
        }
        None => {
            println!("REPLAY-RESULT no-violation property={}", check.id());
            0
        }
    }
}

/// Re-execute a replay file in a fresh process and confirm the same oracle fails.
pub fn confirm_in_child(path: &Path, oracle: &str) -> Result<(), String> {
    let exe = std::env::current_exe().map_err(|e| e.to_string())?;
    let out = std::process::Command::new(exe)
        .arg("replay")
        .arg(path)
        .output()
        .map_err(|e| e.to_string())?;
    let so = String::from_utf8_lossy(&out.stdout);
    let want = format!("REPLAY-RESULT violation-reproduced oracle={oracle}");
    if out.status.code() == Some(1) && so.lines().any(|l| l == want) {
        Ok(())
    } else {
        Err(format!(
            "child replay exit={:?} stdout={}",
            out.status.code(),
            so.lines().last().unwrap_or("")
        ))
    }
}

/// Execute `case` in a fresh process; returns the failing oracle and detail, if any.
pub fn exec_in_child<C: Check>(check: &C, case: &C::Case, tag: &str) -> Result<Option<Violation>, String> {
    let path = replay_dir().join(format!(".tmp-{}-{}-{tag}.json", check.id(), std::process::id()));
    let doc = json!({"property": check.id(), "case": case});
    std::fs::write(&path, serde_json::to_string(&doc).unwrap()).map_err(|e| e.to_string())?;
    let exe = std::env::current_exe().map_err(|e| e.to_string())?;
    let out = std::process::Command::new(exe).arg("replay").arg(&path).output().map_err(|e| e.to_string());
    let _ = std::fs::remove_file(&path);
    let out = out?;
    let so = String::from_utf8_lossy(&out.stdout);
    match out.status.code() {
        Some(0) => Ok(None),
        Some(1) => {
            let oracle = so
                .lines()
                .find_map(|l| l.strip_prefix("REPLAY-RESULT violation-reproduced oracle="))
                .unwrap_or("?")
                .to_string();
            let detail = so.lines().find(|l| l.starts_with("REPLAY property=")).unwrap_or("").to_string();
            Ok(Some(Violation { oracle, detail }))
        }
        c => Err(format!("child exit {c:?}")),
    }
}

/// Delta debugging with every candidate executed in its own fresh process: used when the
/// in-process minimisation is not trustworthy because the code under test keeps state in the
/// process (statics, poisoned locks, thread-locals of the minimising thread).
pub fn minimise_isolated<C: Check>(check: &C, case: &C::Case, oracle: &str, budget: u64) -> Option<(C::Case, Violation, u64)> {
    let mut cur = case.clone();
    let mut cur_v = match exec_in_child(check, &cur, "iso") {
        Ok(Some(v)) if v.oracle == oracle => v,
        _ => return None,
    };
    let mut execs = 1u64;
    'outer: loop {
        for cand in check.shrink(&cur) {
            if execs >= budget {
                break 'outer;
            }
            execs += 1;
            if let Ok(Some(v)) = exec_in_child(check, &cand, "iso") {
                if v.oracle == oracle {
                    cur = cand;
                    cur_v = v;
                    continue 'outer;
                }
            }
        }
        break;
    }
    Some((cur, cur_v, execs))
}

/// Minimise, write the replay file and confirm it in a fresh process. Falls back to
/// process-isolated minimisation when the in-process result does not reproduce.
pub fn minimise_and_confirm<C: Check>(
    check: &C,
    seed: u64,
    index: u64,
    case: &C::Case,
    v0: &Violation,
) -> Result<(PathBuf, C::Case, Violation), String> {
    let (min_case, v, execs) = minimise(check, case, &v0.oracle);
    let note = format!("minimised with {execs} in-process re-executions from run {index}");
    let path = write_replay(check, seed, index, &min_case, &v, &note);
    match confirm_in_child(&path, &v.oracle) {
        Ok(()) => Ok((path, min_case, v)),
        Err(e1) => match minimise_isolated(check, case, &v0.oracle, 400) {
            Some((c2, v2, n2)) => {
                let note = format!("minimised with {n2} process-isolated re-executions from run {index} (the in-process minimum did not reproduce in a fresh process: the code under test keeps state in the process)");
                let path = write_replay(check, seed, index, &c2, &v2, &note);
                confirm_in_child(&path, &v2.oracle).map(|()| (path, c2, v2))
            }
            None => Err(e1),
        },
    }
}

pub fn run_batch<C: Check>(check: &C, cfg: &BatchCfg) -> BatchOutcome {
    let start = Instant::now();
    let chunk: u64 = 256;
    let next_chunk = AtomicU64::new(0);
    let stop = AtomicBool::new(false);
    let min_violation = AtomicU64::new(u64::MAX);
    let words = 1usize << (cfg.bitmap_log2 - 6);
    let bitmap: Vec<AtomicU64> = (0..words).map(|_| AtomicU64::new(0)).collect();
    let mask = (1u64 << cfg.bitmap_log2) - 1;

    struct Shared {
        stats: Stats,
        evaluations: u64,
        nontrivial: u64,
        events: u64,
        violating: Vec<u64>,
        hashes: Vec<(u64, u64)>,
        xor_hash: u64,
    }
    let shared = Mutex::new(Shared {
        stats: Stats::default(),
        evaluations: 0,
        nontrivial: 0,
        events: 0,
        violating: vec![],
        hashes: vec![],
        xor_hash: 0,
    });
    let total_chunks = cfg.runs.div_ceil(chunk);
    let known = Known::load();

    std::thread::scope(|scope| {
        for _ in 0..cfg.workers.max(1) {
            scope.spawn(|| {
                let mut local = Stats::default();
                let mut evals = 0u64;
                let mut nontriv = 0u64;
                let mut events = 0u64;
                let mut violating = vec![];
                let mut hashes = vec![];
                let mut xor_hash = 0u64;
                loop {
                    if stop.load(Ordering::Relaxed) {
                        break;
                    }
                    let c = next_chunk.fetch_add(1, Ordering::Relaxed);
                    if c >= total_chunks {
                        break;
                    }
                    let lo = c * chunk;
                    let hi = ((c + 1) * chunk).min(cfg.runs);
                    if lo > min_violation.load(Ordering::Relaxed) {
                        break;
                    }
                    for i in lo..hi {
                        let mut rng = Rng::new(run_seed(cfg.seed, check.id(), i));
                        let case = check.generate(&mut rng);
                        let r = execute_guarded(check, &case, &mut local);
                        evals += 1;
                        events += r.events;
                        xor_hash ^= crate::rng::splitmix64(r.fingerprint ^ i.wrapping_mul(0x9E37_79B9_7F4A_7C15));
                        if cfg.hashes_only {
                            hashes.push((i, r.fingerprint));
                        }
                        if r.nontrivial {
                            nontriv += 1;
                            let h = r.fingerprint & mask;
                            bitmap[(h >> 6) as usize].fetch_or(1 << (h & 63), Ordering::Relaxed);
                        }
                        if let Some(v) = &r.violation {
                            violating.push(i);
                            // a listed known finding recognisable on the raw case does not end the search
                            if !known.matches(check.id(), &check.finding_key(&case, v)) {
                                min_violation.fetch_min(i, Ordering::Relaxed);
                            }
                        }
                    }
                    if cfg.budget_s > 0.0 && start.elapsed().as_secs_f64() > cfg.budget_s {
                        stop.store(true, Ordering::Relaxed);
                    }
                }
                let mut s = shared.lock().unwrap();
                s.stats.merge(&local);
                s.evaluations += evals;
                s.nontrivial += nontriv;
                s.events += events;
                s.violating.extend(violating);
                s.hashes.extend(hashes);
                s.xor_hash ^= xor_hash;
            });
        }
    });

    let mut sh = shared.into_inner().unwrap();
    let distinct: u64 = bitmap.iter().map(|w| w.load(Ordering::Relaxed).count_ones() as u64).sum();
    let mut out_lines = vec![];
    if cfg.hashes_only {
        sh.hashes.sort();
        for (i, h) in &sh.hashes {
            out_lines.push(format!("H {i} {h:016x}"));
        }
    }

    // A few explicit sample cases (first indices), written out for the evidence file.
    let mut samples = vec![];
    for i in 0..3u64.min(cfg.runs) {
        let mut rng = Rng::new(run_seed(cfg.seed, check.id(), i));
        let case = check.generate(&mut rng);
        samples.push(json!({"run_index": i, "run_seed": run_seed(cfg.seed, check.id(), i), "case": case}));
    }

    // Triage violations in index order.
    sh.violating.sort();
    let mut known_lines = vec![];
    for pc in check.probe_cases() {
        let mut st = Stats::default();
        match execute_guarded(check, &pc, &mut st).violation {
            Some(v) => {
                let key = check.finding_key(&pc, &v);
                if known.matches(check.id(), &key) {
                    known_lines.push(format!("KNOWN-FINDING: property={} {}", check.id(), key));
                } else {
                    out_lines.push(format!("note: probe case fails with an unlisted key: {key}"));
                }
            }
            None => out_lines.push(format!(
                "note: a finding listed as open no longer reproduces on its canonical input {}",
                serde_json::to_string(&pc).unwrap_or_default()
            )),
        }
    }
    let mut violations = 0u64;
    let mut known_runs = 0u64;
    let triage_cap = 5000;
    let mut unrepro: Vec<u64> = vec![];
    let mut unrepro_child: Vec<String> = vec![];
    for &i in sh.violating.iter().take(triage_cap) {
        let mut rng = Rng::new(run_seed(cfg.seed, check.id(), i));
        let case = check.generate(&mut rng);
        let mut st = Stats::default();
        let r = execute_guarded(check, &case, &mut st);
        let Some(v0) = r.violation else {
            // the outcome of run i depended on what the worker thread had executed before it:
            // not replayable on its own; look for a self-contained violating run instead
            unrepro.push(i);
            continue;
        };
        // a finding key that is already recognisable on the raw case needs no minimisation
        let raw_key = check.finding_key(&case, &v0);
        if known.matches(check.id(), &raw_key) {
            let line = format!("KNOWN-FINDING: property={} {}", check.id(), raw_key);
            if !known_lines.contains(&line) {
                known_lines.push(line);
            }
            known_runs += 1;
            continue;
        }
        let (path, min_case, v) = match minimise_and_confirm(check, cfg.seed, i, &case, &v0) {
            Ok(x) => x,
            Err(e) => {
                unrepro_child.push(format!("run {i} ({e})"));
                continue;
            }
        };
        let key = check.finding_key(&min_case, &v);
        if known.matches(check.id(), &key) {
            let _ = std::fs::remove_file(&path);
            let line = format!("KNOWN-FINDING: property={} {}", check.id(), key);
            if !known_lines.contains(&line) {
                known_lines.push(line);
            }
            known_runs += 1;
            continue;
        }
        out_lines.push(format!(
            "violation detail: oracle={} {} | minimised case: {}",
            v.oracle,
            v.detail,
            serde_json::to_string(&min_case).unwrap_or_default()
        ));
        out_lines.push(format!("VIOLATION property={} replay={}", check.id(), path.display()));
        violations += 1;
        break; // first (lowest index) unknown violation is the one reported
    }
    if violations == 0 && sh.violating.len() > triage_cap {
        out_lines.push(format!(
            "note: {} violating runs, only the first {} (lowest indices) were triaged individually; all of those matched known findings",
            sh.violating.len(),
            triage_cap
        ));
    }
    if violations == 0 && (!unrepro.is_empty() || !unrepro_child.is_empty()) {
        out_lines.push(format!(
            "HARNESS-ERROR property={} {} violating run(s) did not reproduce when re-executed alone (first: {:?}) and {} replay file(s) did not reproduce in a fresh process {:?}: run outcomes depend on process history",
            check.id(),
            unrepro.len(),
            unrepro.first(),
            unrepro_child.len(),
            unrepro_child.first()
        ));
        std::process::exit(flush_and_code(&out_lines, 2));
    }
    if known_runs > 0 {
        out_lines.push(format!("note: {known_runs} run(s) hit listed known findings"));
    }
    for l in &known_lines {
        out_lines.push(l.clone());
    }

    BatchOutcome {
        evaluations: sh.evaluations,
        distinct_nontrivial: distinct,
        nontrivial: sh.nontrivial,
        events: sh.events,
        stats: sh.stats,
        wall_s: start.elapsed().as_secs_f64(),
        violations,
        known: known_lines,
        samples,
        out_lines,
        combined_hash: sh.xor_hash,
    }
}

/// fds saved by an active process-wide capture (C14 silence layer), restored before printing
pub static SAVED_FDS: Mutex<Option<(i32, i32)>> = Mutex::new(None);

pub fn flush_and_code(lines: &[String], code: i32) -> i32 {
    if let Ok(mut g) = SAVED_FDS.lock() {
        if let Some((a, b)) = g.take() {
            unsafe {
                libc::dup2(a, 1);
                libc::dup2(b, 2);
            }
        }
    }
    let so = std::io::stdout();
    let mut so = so.lock();
    for l in lines {
        let _ = writeln!(so, "{l}");
    }
    let _ = so.flush();
    code
}

pub fn stats_json(stats: &Stats) -> Value {
    let mut m = serde_json::Map::new();
    for (k, v) in &stats.0 {
        m.insert((*k).to_string(), json!(v));
    }
    Value::Object(m)
}

/// Build the evidence document for a generic batch.
pub fn evidence_for<C: Check>(check: &C, cfg: &BatchCfg, o: &BatchOutcome, extra: Value) -> Value {
    let mut fault = serde_json::Map::new();
    for k in check.fault_kinds() {
        fault.insert(k.to_string(), json!(o.stats.get(k)));
    }
    let mut probes = serde_json::Map::new();
    for (k, v) in &o.stats.0 {
        if !check.fault_kinds().contains(k) {
            probes.insert((*k).to_string(), json!(v));
        }
    }
    let runs_per_hour = if o.wall_s > 0.0 {
        (o.evaluations as f64 / o.wall_s * 3600.0) as u64
    } else {
        0
    };
    json!({
        "property_id": check.id(),
        "tier": cfg.tier,
        "seed": cfg.seed,
        "level": "exploration",
        "coverage": {
            "evaluations": o.evaluations,
            "distinct_nontrivial": o.distinct_nontrivial,
            "nontrivial_runs": o.nontrivial,
            "rule": check.rule(),
            "samples": o.samples,
            "simulated_runs_per_hour": runs_per_hour,
            "seeds": format!("run i uses splitmix64(VERIF_SEED ^ tag ^ i*phi), i in 0..{}", o.evaluations),
            "logical_steps_total": o.events,
            "simulated_time": "n/a - nothing in the system under test reads a clock; logical steps (events) are reported instead",
            "faults_fired": Value::Object(fault),
            "reach_probes": Value::Object(probes),
            "real_components": check.real_components(),
            "stub_components": check.stub_components(),
            "known_findings_matched": o.known,
            "batch_fingerprint": format!("{:016x}", o.combined_hash),
            "workers": cfg.workers,
            "extra": extra,
        },
        "assumptions": check.assumptions(),
        "wall_s": o.wall_s,
        "violations": o.violations,
    })
}

pub fn write_evidence(id: &str, doc: &Value) {
    let d = verif_dir().join("evidence");
    let _ = std::fs::create_dir_all(&d);
    let p = d.join(format!("{id}.json"));
    std::fs::write(&p, serde_json::to_string_pretty(doc).unwrap()).expect("write evidence");
}
