//! C10 — context independence as crash/restart transparency of the scanning session.
//! The injected fault is a *session cut*: the pipeline stops after `A·S` (S a strong
//! separator), every bit of in-memory state is lost, and a fresh call continues with `B`.

use std::sync::OnceLock;

use serde::{Deserialize, Serialize};
use text2num::digit_string::DigitString;
use text2num::error::Error;
use text2num::verif::{tokenize, BasicToken};
use text2num::{find_numbers, find_numbers_iter, replace_numbers_in_text, LangInterpreter};

use crate::c02::gen_text;
use crate::driver::{guarded, Check, RunResult, Stats, Violation};
use crate::pools::{langs, threshold_of, POOLS, THRESHOLDS};
use crate::rng::{Fp, Rng};
use crate::stream::{gen_number_phrase, GenCfg, Log, SimSource, TokSpec};
use crate::with_lang;

#[derive(Clone, Debug, Serialize, Deserialize)]
pub struct Case {
    pub lang: usize,
    pub concrete: bool,
    pub thr: String,
    pub a: String,
    pub s: String,
    pub b: String,
    /// punctuation clause: x p y at threshold 0 (skipped when x or y is empty)
    pub x: String,
    pub p: String,
    pub y: String,
    /// crashed-session fault: a scan of these words on the same thread is abandoned after
    /// `abort_requests` lazy requests (iterator dropped mid-stream) or dies in a caller callback
    /// at seam crossing `abort_crash_at`; afterwards rewrite(A S B) must be what it was before
    #[serde(default)]
    pub abort_words: Vec<String>,
    #[serde(default)]
    pub abort_requests: usize,
    #[serde(default)]
    pub abort_crash_at: u64,
    /// an earlier, complete rewrite on the same thread (the previous utterance of the session);
    /// afterwards rewrite(A S B) must still be rewrite(A) S rewrite(B)
    #[serde(default)]
    pub prior_text: String,
}

const NEUTRAL: [&str; 52] = [
    "λευκά", "μικρά", "αυγά", "собака", "кошка", "молоко", "日本語", "猫", "שלום", "مرحبا", "žluťoučký", "çok",
    "table", "window", "garden", "purple", "walking", "xyz", "maison", "perro", "strada", "haus", "fiets", "janela",
    "arrive", "demain", "matin", "kommt", "llega", "chega", "arriva", "komt", "morgen", "domani", "mañana", "amanhã",
    "tomorrow", "slowly", "blue", "rouge", "verde", "grün", "groen", "vermelho", "river", "monte", "brücke", "brug",
    "ponte", "queso", "fromage", "kaas",
];
const FR_LOOKBACK: [&str; 5] = ["un", "le", "du", "l'", "numéro"];

fn admitted<L: LangInterpreter>(l: &L) -> Vec<&'static str> {
    NEUTRAL
        .iter()
        .copied()
        .filter(|w| {
            let mut b = DigitString::new();
            let not_number = matches!(l.apply(w, &mut b), Err(Error::NaN) | Err(Error::Overlap) | Err(Error::Frozen));
            let mut b2 = DigitString::new();
            let not_dec = matches!(l.apply_decimal(w, &mut b2), Err(Error::NaN) | Err(Error::Overlap) | Err(Error::Frozen));
            not_number && not_dec && !l.is_linking(w) && !l.is_decimal_sep(w) && !FR_LOOKBACK.contains(w)
        })
        .collect()
}

/// Separator words admitted per language: only words the interpreter itself classifies as
/// ordinary (not a number word, not linking, not a decimal separator, not a look-back trigger).
pub fn separator_words(lang: usize) -> &'static [&'static str] {
    static CACHE: OnceLock<Vec<Vec<&'static str>>> = OnceLock::new();
    let all = CACHE.get_or_init(|| (0..7).map(|i| with_lang!(langs(), i, false, l => admitted(l))).collect());
    &all[lang % 7]
}

const SENT_END: [&str; 10] = [". ", ".\n", ".  ", ". \t", "! ", "? ", "!\n", "?! ", "… ", "! "];
const PUNCT_P: [&str; 32] = [
    " - ", " -", " – ", " -- ", "\u{2010}", "\u{2011}", "–", " \u{2010} ",
    ",", ", ", " , ", ".", ". ", ";", "; ", ":", ": ", "!", "! ", "?", "…", " … ", " / ", "/", "(", ") (", " — ", "«", "» ", "%", " & ",
    "...",
];

fn rewrite<L: LangInterpreter>(l: &L, s: &str, thr: f64) -> Result<String, String> {
    guarded(|| replace_numbers_in_text(s, l, thr))
}

/// Is `s` read by the scanner alone (threshold 0) as exactly one number covering all its tokens?
fn single_number<L: LangInterpreter>(l: &L, s: &str) -> bool {
    guarded(|| {
        let mut toks: Vec<BasicToken> = tokenize(s).collect();
        if toks.is_empty() {
            return false;
        }
        l.basic_annotate(&mut toks);
        let occs = find_numbers(toks.iter(), l, 0.0);
        occs.len() == 1 && occs[0].start == 0 && occs[0].end == toks.len()
    })
    .unwrap_or(false)
}

fn drop_words_of(s: &str) -> Vec<String> {
    let words: Vec<&str> = s.split(' ').collect();
    let mut v = vec![];
    if words.len() > 1 {
        for i in 0..words.len() {
            let mut w = words.clone();
            w.remove(i);
            v.push(w.join(" "));
        }
    }
    v
}

fn viol(oracle: &str, detail: String) -> RunResult {
    RunResult { fingerprint: 0, nontrivial: true, events: 0, violation: Some(Violation { oracle: oracle.into(), detail }) }
}

fn exec<L: LangInterpreter>(l: &L, case: &Case, stats: &mut Stats) -> RunResult {
    let thr = threshold_of(&case.thr);
    let code = POOLS[case.lang % 7].code;
    let mut fp = Fp::new();
    let mut nontrivial = false;

    // --- session cut at a strong separator
    let whole_in = format!("{}{}{}", case.a, case.s, case.b);
    let whole = rewrite(l, &whole_in, thr);
    let ra = rewrite(l, &case.a, thr);
    let rb = rewrite(l, &case.b, thr);
    match (whole, ra, rb) {
        (Ok(whole), Ok(ra), Ok(rb)) => {
            let restarted = format!("{}{}{}", ra, case.s, rb);
            if whole != restarted {
                return viol(
                    "R1-restart-transparency",
                    format!(
                        "lang={code} thr={} A={:?} S={:?} B={:?}: rewrite(A S B) = {:?} but rewrite(A) S rewrite(B) = {:?}",
                        case.thr, case.a, case.s, case.b, whole, restarted
                    ),
                );
            }
            stats.hit("fault.session_cut");
            if ra != case.a {
                stats.hit("probe.number_rewritten_before_cut");
            }
            if rb != case.b {
                stats.hit("probe.number_rewritten_after_cut");
                nontrivial = ra != case.a;
            }
            fp.str(&whole);
        }
        (Err(_), ra, rb) if ra.is_err() || rb.is_err() => {
            stats.hit("probe.panicked_consistently_skipped");
        }
        (w, ra, rb) => {
            return viol(
                "R1-restart-transparency",
                format!(
                    "lang={code} thr={} A={:?} S={:?} B={:?}: panics differ: whole {:?}, A {:?}, B {:?}",
                    case.thr, case.a, case.s, case.b, w, ra, rb
                ),
            )
        }
    }

    // --- a previous, complete call on this thread must leave nothing behind either
    if !case.prior_text.is_empty() {
        let _ = rewrite(l, &case.prior_text, thr);
        stats.hit("fault.prior_call_on_thread");
        if let (Ok(w2), Ok(ra), Ok(rb)) = (rewrite(l, &case.b, thr), rewrite(l, &case.a, thr), rewrite(l, &case.b, thr)) {
            // B first (it is what follows the prior call directly), then A, then B again
            let _ = ra;
            if w2 != rb {
                return viol(
                    "R4-previous-call-leaves-nothing",
                    format!(
                        "lang={code} thr={} after rewrite({:?}) on this thread, rewrite(B) = {:?}, the next time {:?}; B = {:?}",
                        case.thr, case.prior_text, w2, rb, case.b
                    ),
                );
            }
        }
    }

    // --- a crashed / abandoned scan on this thread must leave nothing behind
    if !case.abort_words.is_empty() {
        let toks: Vec<TokSpec> = case.abort_words.iter().map(|w| TokSpec::word(w)).collect();
        let log = Log::new();
        log.crash_at.set(case.abort_crash_at);
        let r = guarded(|| {
            let src = SimSource { toks: &toks, next: 0, log: &log, exact_size: false };
            log.in_request.set(true);
            let mut it = find_numbers_iter(src, l, thr);
            let mut n = 0;
            for _ in 0..case.abort_requests {
                if it.next().is_none() {
                    break;
                }
                n += 1;
            }
            drop(it);
            n
        });
        match r {
            Ok(_) => {
                if log.pulls.get() < toks.len() {
                    stats.hit("fault.scan_abandoned_mid_stream");
                }
            }
            Err(_) => stats.hit("fault.scan_crashed_in_callback"),
        }
        if let (Ok(before), Ok(after)) = (rewrite(l, &whole_in, thr), rewrite(l, &whole_in, thr)) {
            // `before` here is already after the abort; compare both with the restart oracle's parts
            let ra = rewrite(l, &case.a, thr).unwrap_or_default();
            let rb = rewrite(l, &case.b, thr).unwrap_or_default();
            let restarted = format!("{}{}{}", ra, case.s, rb);
            if before != restarted || after != restarted {
                return viol(
                    "R3-restart-after-aborted-scan",
                    format!(
                        "lang={code} thr={} after an aborted scan of {:?} (requests={}, crash_at={}): rewrite(A S B) = {:?} then {:?}, but rewrite(A) S rewrite(B) = {:?}",
                        case.thr, case.abort_words, case.abort_requests, case.abort_crash_at, before, after, restarted
                    ),
                );
            }
        }
    }

    // --- punctuation keeps two numbers apart (threshold 0)
    if !case.x.is_empty() && !case.y.is_empty() && !case.p.is_empty() {
        if single_number(l, &case.x) && single_number(l, &case.y) {
            let xin = format!("{}{}{}", case.x, case.p, case.y);
            match (rewrite(l, &xin, 0.0), rewrite(l, &case.x, 0.0), rewrite(l, &case.y, 0.0)) {
                (Ok(w), Ok(rx), Ok(ry)) => {
                    let want = format!("{}{}{}", rx, case.p, ry);
                    if w != want {
                        return viol(
                            "R2-punctuation-separates",
                            format!("lang={code} X={:?} p={:?} Y={:?}: rewrite(X p Y, 0) = {:?}, expected {:?}", case.x, case.p, case.y, w, want),
                        );
                    }
                    stats.hit("probe.punctuation_clause_checked");
                    nontrivial = true;
                    fp.str(&w);
                }
                (w, rx, ry) => {
                    if !(w.is_err() && (rx.is_err() || ry.is_err())) {
                        return viol("R2-punctuation-separates", format!("lang={code} X={:?} p={:?} Y={:?}: panics differ {:?} {:?} {:?}", case.x, case.p, case.y, w, rx, ry));
                    }
                }
            }
        } else {
            stats.hit("probe.punctuation_clause_precondition_unmet");
        }
    }
    RunResult { fingerprint: fp.finish(), nontrivial, events: whole_in.len() as u64, violation: None }
}

pub struct C10;

fn phrase(rng: &mut Rng, lang: usize) -> String {
    let mut w = vec![];
    gen_number_phrase(rng, &POOLS[lang], &mut w);
    w.join(" ")
}

impl Check for C10 {
    type Case = Case;
    fn id(&self) -> &'static str {
        "C10"
    }

    fn generate(&self, rng: &mut Rng) -> Case {
        let lang = rng.below(7);
        let concrete = rng.chance(1, 2);
        let thr = (*rng.pick(&THRESHOLDS)).to_string();
        let pool = &POOLS[lang];
        let mut cfg = GenCfg::swarm(rng);
        cfg.w[11] = cfg.w[11].max(3) * 2; // ambiguity triggers matter here
        let na = match rng.below(128) {
            0 => {
                if rng.chance(1, 96) {
                    // ~100 KB and thousands of occurrences in one call
                    rng.range(12_000, 16_000)
                } else {
                    rng.range(400, 1200)
                }
            }
            1 | 2 => rng.range(40, 200),
            _ => rng.range(0, 15),
        };
        let mut a = gen_text(rng, pool, &cfg, na);
        let nb = rng.range(0, 15);
        let mut b = gen_text(rng, pool, &cfg, nb);
        // cut biased to instants where state is in flight
        if rng.chance(1, 2) {
            let tail = match rng.below(7) {
                0 => rng.word(pool.tens),
                1 => rng.word(pool.conj),
                2 => rng.word(pool.decsep),
                3 => rng.word(pool.units),
                4 => rng.word(pool.ordinals),
                5 => rng.word(pool.hundreds),
                _ => rng.word(pool.ambiguous),
            };
            if !a.is_empty() && !a.ends_with(char::is_whitespace) {
                a.push(' ');
            }
            a.push_str(tail);
        }
        if rng.chance(1, 2) {
            let head = match rng.below(4) {
                0 => rng.word(pool.units),
                1 => rng.word(pool.zero),
                2 => rng.word(pool.ambiguous),
                _ => rng.word(pool.hundreds),
            };
            b = if b.is_empty() || b.starts_with(|c: char| !c.is_alphanumeric()) { format!("{head}{b}") } else { format!("{head} {b}") };
        }
        // strong separator: >= 3 admitted ordinary words ending a sentence
        let words = separator_words(lang);
        let k = rng.range(3, 5);
        let mut s = String::from(*rng.pick(&[" ", " ", "  ", "\n", ", "]));
        for i in 0..k {
            if i > 0 {
                s.push_str(rng.word(&[" ", " ", "  ", ", "]));
            }
            s.push_str(rng.word(words));
        }
        s.push_str(rng.word(&SENT_END));
        // punctuation clause
        let (x, p, y) = if rng.chance(2, 3) {
            (phrase(rng, lang), rng.word(&PUNCT_P).to_string(), phrase(rng, lang))
        } else {
            (String::new(), String::new(), String::new())
        };
        let (abort_words, abort_requests, abort_crash_at) = if rng.chance(1, 3) {
            let mut w = vec![];
            for _ in 0..rng.range(1, 3) {
                gen_number_phrase(rng, pool, &mut w);
            }
            let crash = if rng.chance(1, 2) { rng.range(1, 30) as u64 } else { 0 };
            (w.into_iter().map(|s| s.to_string()).collect(), *rng.pick(&[0usize, 1, 1, 2, 3]), crash)
        } else {
            (vec![], 0, 0)
        };
        let prior_text = if rng.chance(1, 4) {
            let n = rng.range(1, 6);
            let mut t = gen_text(rng, pool, &cfg, n);
            // the last word is what scanner state left behind would remember: pick it deliberately
            let pairs = crate::vocab::link_pairs(lang);
            let last = match rng.below(4) {
                0 if !pairs.is_empty() => pairs[rng.below(pairs.len())].0,
                1 => rng.word(pool.decsep),
                2 => rng.word(pool.conj),
                _ => rng.word(pool.tens),
            };
            if !t.is_empty() && !t.ends_with(char::is_whitespace) {
                t.push(' ');
            }
            t.push_str(last);
            t
        } else {
            String::new()
        };
        Case { lang, concrete, thr, a, s, b, x, p, y, abort_words, abort_requests, abort_crash_at, prior_text }
    }

    fn execute(&self, case: &Case, stats: &mut Stats) -> RunResult {
        crate::with_fresh_lang!(case.lang, case.concrete, l => exec(l, case, stats))
    }

    fn shrink(&self, case: &Case) -> Vec<Case> {
        let mut out = vec![];
        if !case.x.is_empty() {
            out.push(Case { x: String::new(), p: String::new(), y: String::new(), ..case.clone() });
        }
        if !case.prior_text.is_empty() {
            out.push(Case { prior_text: String::new(), ..case.clone() });
            for t in drop_words_of(&case.prior_text) {
                if !t.is_empty() {
                    out.push(Case { prior_text: t, ..case.clone() });
                }
            }
        }
        if !case.abort_words.is_empty() {
            out.push(Case { abort_words: vec![], abort_requests: 0, abort_crash_at: 0, ..case.clone() });
            for i in 0..case.abort_words.len() {
                let mut w = case.abort_words.clone();
                w.remove(i);
                if !w.is_empty() {
                    out.push(Case { abort_words: w, ..case.clone() });
                }
            }
            if case.abort_crash_at > 0 {
                out.push(Case { abort_crash_at: 0, ..case.clone() });
                out.push(Case { abort_crash_at: case.abort_crash_at - 1, ..case.clone() });
            }
            if case.abort_requests > 0 {
                out.push(Case { abort_requests: case.abort_requests - 1, ..case.clone() });
            }
        }
        if !case.a.is_empty() || !case.b.is_empty() {
            // keep the punctuation clause only
            out.push(Case { a: String::new(), b: String::new(), ..case.clone() });
        }
        let drop_words = |s: &str| -> Vec<String> {
            let words: Vec<&str> = s.split(' ').collect();
            let mut v = vec![];
            if words.len() > 80 {
                v.push(words[words.len() / 2..].join(" "));
                v.push(words[..words.len() / 2].join(" "));
                let q = words.len() / 8;
                for k in 0..8 {
                    let mut w = words.clone();
                    w.drain(k * q..(k + 1) * q);
                    v.push(w.join(" "));
                }
            } else if words.len() > 1 {
                v.push(words[words.len() / 2..].join(" "));
                v.push(words[..words.len() / 2].join(" "));
                for i in 0..words.len() {
                    let mut w = words.clone();
                    w.remove(i);
                    v.push(w.join(" "));
                }
            } else if !s.is_empty() {
                v.push(String::new());
            }
            v
        };
        for a in drop_words(&case.a) {
            out.push(Case { a, ..case.clone() });
        }
        for b in drop_words(&case.b) {
            out.push(Case { b, ..case.clone() });
        }
        for x in drop_words(&case.x) {
            if !x.is_empty() {
                out.push(Case { x, ..case.clone() });
            }
        }
        for y in drop_words(&case.y) {
            if !y.is_empty() {
                out.push(Case { y, ..case.clone() });
            }
        }
        // canonical separator
        let words = separator_words(case.lang);
        let canon = format!(" {} {} {}. ", words[0], words[1], words[2]);
        if case.s != canon {
            out.push(Case { s: canon, ..case.clone() });
        }
        // lower-case, ascii-only simplifications of A and B
        let la = case.a.to_lowercase();
        if la != case.a {
            out.push(Case { a: la, ..case.clone() });
        }
        let lb = case.b.to_lowercase();
        if lb != case.b {
            out.push(Case { b: lb, ..case.clone() });
        }
        if case.thr != "0" {
            out.push(Case { thr: "0".into(), ..case.clone() });
            out.push(Case { thr: "10".into(), ..case.clone() });
        }
        if case.concrete {
            out.push(Case { concrete: false, ..case.clone() });
        }
        out
    }

    /// Findings are identified by the failing input's shape, not by the property id.
    fn finding_key(&self, case: &Case, v: &Violation) -> String {
        let tail = |s: &str, n: usize| -> String {
            let w: Vec<&str> = s.split(|c: char| !(c.is_alphanumeric() || c == '-' || c == '\'')).filter(|w| !w.is_empty()).collect();
            w[w.len().saturating_sub(n)..].join(" ").to_lowercase()
        };
        if v.oracle == "R2-punctuation-separates" {
            format!("oracle={} lang={} x_tail={:?} y_tail={:?}", v.oracle, POOLS[case.lang % 7].code, tail(&case.x, 1), tail(&case.y, 2))
        } else {
            format!("oracle={} lang={} case={}", v.oracle, POOLS[case.lang % 7].code, serde_json::to_string(case).unwrap_or_default())
        }
    }

    fn probe_cases(&self) -> Vec<Case> {
        // open: property=C10 oracle=R2-punctuation-separates lang=fr x_tail="un" y_tail="et neuf"
        vec![Case {
            lang: 3,
            concrete: false,
            thr: "0".into(),
            a: String::new(),
            s: " table window garden. ".into(),
            b: String::new(),
            x: "un".into(),
            p: "? ".into(),
            y: "vingt et neuf".into(),
            abort_words: vec![],
            abort_requests: 0,
            abort_crash_at: 0,
            prior_text: String::new(),
        }]
    }

    fn rule(&self) -> String {
        "A run is one session-cut experiment: texts A and B (0-15 pool words each incl. ambiguity triggers, decimals, \
         ordinals, exotic Unicode, varied separators; A biased to end inside in-flight state, B to start with a unit / \
         zero / ambiguous word), a strong separator S (3-5 interpreter-admitted ordinary words ending a sentence), one \
         language (facade or concrete) and one threshold of {0,1,3,10,100,-1,inf,NaN}: rewrite(A S B) must equal \
         rewrite(A) S rewrite(B) (pipeline stopped after A S, all in-memory state lost, fresh call continues with B). \
         Plus the punctuation clause X p Y at threshold 0 when X and Y are each read alone as one number. \
         Non-trivial = a number was rewritten on both sides of the cut, or the punctuation clause was checked; \
         distinct = distinct fingerprints of the rewritten texts (bitmap sketch)."
            .into()
    }

    fn assumptions(&self) -> Vec<String> {
        vec![
            "separator words are admitted per language only if the interpreter itself says: apply/apply_decimal on a fresh builder is a non-Incomplete error, not linking, not a decimal separator, and not one of the French look-back triggers un/le/du/l'/numéro".into(),
            "p is a non-empty run of non-alphanumeric characters with at least one non-space; '-' and '\\'' only appear after a space (glued to a word they are word characters for the tokenizer)".into(),
            "the punctuation clause is only evaluated when X and Y alone are each one number covering all their tokens (checked with the real scanner)".into(),
            "weakest fit of the technique: a metamorphic relation on a pure function, claimed because its failure mode is leaked per-call session state".into(),
            "seeded sampling, not proof".into(),
        ]
    }

    fn real_components(&self) -> Vec<&'static str> {
        vec![
            "text2num::replace_numbers_in_text end to end (tokenizer, basic_annotate incl. scratch builder, FindNumbers, parser, tracker, replace)",
            "all seven interpreters (facade and concrete)",
        ]
    }

    fn stub_components(&self) -> Vec<&'static str> {
        vec!["the re-chunking pipeline around the library (session cut and concatenation of outputs)"]
    }

    fn fault_kinds(&self) -> Vec<&'static str> {
        vec!["fault.session_cut", "fault.scan_abandoned_mid_stream", "fault.scan_crashed_in_callback", "fault.prior_call_on_thread"]
    }
}
