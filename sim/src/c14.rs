//! C14 — interpreters are stateless, pure and shareable. Calls are data; long-lived
//! interpreters shared by the whole process serve seeded histories (one simulated thread)
//! and seeded interleavings (2-4 simulated threads under the deterministic scheduler),
//! with injected client crashes (panicking callbacks) and abandonment (lazy iterator
//! dropped mid-stream). Every result must equal the result of the same call in a pristine
//! process on a fresh interpreter.

use std::rc::Rc;
use std::sync::{Arc, Mutex};

use serde::{Deserialize, Serialize};
use text2num::digit_string::DigitString;
use text2num::verif::{tokenize, BasicToken};
use text2num::{
    find_numbers, find_numbers_iter, get_interpreter_for, replace_numbers_in_stream, replace_numbers_in_text,
    text2digits, LangInterpreter, Replace, Token,
};

use crate::c02::gen_text;
use crate::driver::{guarded, Check, RunResult, Stats, Violation};
use crate::pools::{threshold_of, Langs, LANG_CODES, POOLS, THRESHOLDS};
use crate::rng::{Fp, Rng};
use crate::sched::{Policy, Sched};
use crate::stream::*;
use crate::with_lang;

#[derive(Clone, Debug, Serialize, Deserialize, PartialEq)]
pub enum Op {
    /// text2digits(text)
    T2d { text: String },
    /// replace_numbers_in_text(text, thr)
    Rewrite { text: String, thr: String },
    /// find_numbers over a simulator-owned token stream
    Find { toks: Vec<TokSpec>, thr: String },
    /// find_numbers_iter, `requests` requests then dropped (abandonment)
    FindIter { toks: Vec<TokSpec>, thr: String, requests: usize },
    /// replace_numbers_in_stream with a merging Replace constructor
    RewriteStream { toks: Vec<TokSpec>, thr: String },
    /// raw interpreter calls on a caller-owned builder
    Raw { words: Vec<String>, decimal_from: usize },
    /// tokenizer + basic_annotate
    Annotate { text: String },
    /// basic_annotate over a caller-owned token type (every accessor is a seam that can crash)
    AnnotateCustom { words: Vec<String> },
    /// get_interpreter_for(code) then text2digits
    Lookup { code: String, text: String },
}

#[derive(Clone, Debug, Serialize, Deserialize, PartialEq)]
pub struct Call {
    pub lang: usize,
    pub concrete: bool,
    pub op: Op,
    /// client crash: the caller-owned seam crossing with this number panics (0 = never)
    #[serde(default)]
    pub crash_at: u64,
    /// re-entrancy: the caller-supplied interpreter makes a nested library call on every n-th
    /// callback (0 = never)
    #[serde(default)]
    pub reenter: u64,
    /// the call is made a second time from a destructor that runs because a panic is propagating on
    /// the calling thread; it must give what it gives normally
    #[serde(default)]
    pub during_unwind: bool,
}

/// Caller-owned token type for `basic_annotate`.
struct ATok<'a> {
    lower: String,
    nan: bool,
    log: &'a Log,
}

impl text2num::BasicAnnotate for ATok<'_> {
    fn text_lowercase(&self) -> &str {
        self.log.ev(EV_LOWER, 0);
        &self.lower
    }
    fn set_nan(&mut self, val: bool) {
        self.log.ev(EV_NAN, val as u64);
        self.nan = val
    }
}

/// Replace constructor without any context: merges what it is handed.
pub struct MTok {
    text: String,
    lower: String,
    separated: bool,
    nan: bool,
    ids: Vec<usize>,
    log: Rc<Log>,
}

impl Token for &MTok {
    fn text(&self) -> &str {
        self.log.ev(EV_TEXT, 0);
        &self.text
    }
    fn text_lowercase(&self) -> &str {
        self.log.ev(EV_LOWER, 0);
        &self.lower
    }
    fn nt_separated(&self, _p: &Self) -> bool {
        self.log.ev(EV_SEP, 0);
        self.separated
    }
    fn not_a_number_part(&self) -> bool {
        self.log.ev(EV_NAN, 0);
        self.nan
    }
}

impl Replace for MTok {
    fn replace<I: Iterator<Item = Self>>(replaced: I, data: String) -> Self {
        let mut ids = vec![];
        let mut log = None;
        for t in replaced {
            ids.extend(t.ids.iter().copied());
            log = Some(t.log.clone());
        }
        let log = log.expect("an occurrence covers at least one token");
        log.ev(EV_REPLACE, ids.len() as u64);
        MTok { lower: data.to_lowercase(), text: data, separated: false, nan: false, ids, log }
    }
}

pub const REENTRANT_MARK: &str = "REENTRANCY-MISMATCH ";
pub const PURITY_MARK: &str = "METHOD-PURITY-MISMATCH ";

/// Oracle H8: a fixed set of trait-method calls (formatting of caller-built numbers, two predicates
/// and the morphological marker of fixed words) made straight on the interpreter before and after
/// every call of a history. Each of them is itself a call whose result may depend on its arguments
/// only, so (i) the answers before and after the body must be equal (what did this very call leave
/// behind for a later trait-method call?) and (ii) the answers before the body are part of the call's
/// result and therefore compared with the pristine-process table (what did an earlier call leave?).
/// The builders are made with the digit builder alone: no interpreter call is involved in the setup.
fn purity_probe<L: LangInterpreter>(l: &L) -> String {
    let r = guarded(|| {
        let mk = |d: &[u8]| {
            let mut b = DigitString::new();
            let _ = b.put(d);
            b
        };
        let (i12, i2, d5, d07) = (mk(b"12"), mk(b"2"), mk(b"5"), mk(b"07"));
        let mut d05 = DigitString::new();
        let _ = d05.push(b"0");
        let _ = d05.push(b"5");
        let (a, av) = l.format_and_value(&i12);
        let (b, bv) = l.format_decimal_and_value(&i2, &d5);
        let (c, cv) = l.format_decimal_and_value(&i12, &d05);
        let (d, dv) = l.format_decimal_and_value(&i2, &d07);
        let (e, ev) = l.format_and_value(&i2);
        // beyond 2^64: whatever is special about values that do not fit an integer type
        let big = mk(b"98765432109876543210");
        let (f, fv) = l.format_and_value(&big);
        let (e, ev) = (format!("{e}|{f}"), ev.to_bits() ^ fv.to_bits().rotate_left(7));
        let ev = f64::from_bits(ev);
        format!(
            "{a}/{}|{b}/{}|{c}/{}|{d}/{}|{e}/{}|{:?}{}{}",
            av.to_bits(),
            bv.to_bits(),
            cv.to_bits(),
            dv.to_bits(),
            ev.to_bits(),
            l.get_morph_marker("xyzzy"),
            l.is_linking("xyzzy") as u8,
            l.is_decimal_sep("xyzzy") as u8
        )
    });
    r.unwrap_or_else(|_| "PROBE-PANIC".to_string())
}

fn exec_with<L: LangInterpreter>(l: &L, call: &Call, yield_on: bool) -> String {
    let reentry_flag = Rc::new(std::cell::Cell::new(false));
    let log = Log::new();
    log.crash_at.set(call.crash_at);
    log.yield_on.set(yield_on);
    let pre = purity_probe(l);
    let r = guarded(|| match &call.op {
        Op::T2d { text } => {
            let cl = CrashLang::with_reentry(l, call.crash_at, call.reenter, reentry_flag.clone());
            match text2digits(text, &cl) {
                Ok(s) => format!("Ok({s})"),
                Err(e) => format!("Err({e:?})"),
            }
        }
        Op::Rewrite { text, thr } => {
            let cl = CrashLang::with_reentry(l, call.crash_at, call.reenter, reentry_flag.clone());
            replace_numbers_in_text(text, &cl, threshold_of(thr))
        }
        Op::Find { toks, thr } => {
            let occs: Vec<Occ> =
                find_numbers(toks.iter().enumerate().map(|(id, spec)| Tk { id, spec, log: &log }), l, threshold_of(thr))
                    .into_iter()
                    .map(Occ::from)
                    .collect();
            format!("{} bits={:?}", fmt_occs(&occs), occs.iter().map(|o| o.value_bits).collect::<Vec<_>>())
        }
        Op::FindIter { toks, thr, requests } => {
            let src = SimSource { toks, next: 0, log: &log, exact_size: toks.len() % 2 == 0 };
            log.in_request.set(true);
            let mut it = find_numbers_iter(src, l, threshold_of(thr));
            let mut got = vec![];
            for _ in 0..*requests {
                match it.next() {
                    Some(o) => got.push(Occ::from(o)),
                    None => break,
                }
            }
            drop(it);
            format!("{} pulls={}", fmt_occs(&got), log.pulls.get())
        }
        Op::RewriteStream { toks, thr } => {
            let slog = Rc::new(Log::new());
            slog.crash_at.set(call.crash_at);
            slog.yield_on.set(yield_on);
            let input: Vec<MTok> = toks
                .iter()
                .enumerate()
                .map(|(id, s)| MTok {
                    text: s.text.clone(),
                    lower: s.lower.clone(),
                    separated: s.separated,
                    nan: s.nan,
                    ids: vec![id],
                    log: slog.clone(),
                })
                .collect();
            let out = replace_numbers_in_stream(input, l, threshold_of(thr));
            let parts: Vec<String> = out.iter().map(|t| format!("{:?}{:?}", t.text, t.ids)).collect();
            parts.join(" ")
        }
        Op::Raw { words, decimal_from } => {
            let cl = CrashLang::with_reentry(l, call.crash_at, call.reenter, reentry_flag.clone());
            let mut int = DigitString::new();
            let mut dec = DigitString::new();
            let mut trace = String::new();
            for (i, w) in words.iter().enumerate() {
                let r = if i >= *decimal_from { cl.apply_decimal(w, &mut dec) } else { cl.apply(w, &mut int) };
                trace.push_str(&match r {
                    Ok(()) => "k".to_string(),
                    Err(e) => format!("{e:?}").chars().next().unwrap().to_string(),
                });
                trace.push_str(&format!(
                    "[{}|{}|{}|{}]",
                    int.to_string(),
                    dec.to_string(),
                    cl.is_linking(w) as u8,
                    cl.is_decimal_sep(w) as u8
                ));
            }
            let fin = if !int.is_empty() && !dec.is_empty() {
                let (s, v) = cl.format_decimal_and_value(&int, &dec);
                format!("{s}/{}", v.to_bits())
            } else if !int.is_empty() {
                let (s, v) = cl.format_and_value(&int);
                format!("{s}/{}", v.to_bits())
            } else {
                "-".to_string()
            };
            let grp = match cl.exec_group(words.iter().map(|s| s.as_str())) {
                Ok(ds) => format!("G:{}", ds.to_string()),
                Err(e) => format!("G:{e:?}"),
            };
            format!("{trace} {fin} {grp}")
        }
        Op::Annotate { text } => {
            let cl = CrashLang::with_reentry(l, call.crash_at, call.reenter, reentry_flag.clone());
            let mut toks: Vec<BasicToken> = tokenize(text).collect();
            cl.basic_annotate(&mut toks);
            toks.iter().map(|t| if t.nan { '!' } else { '.' }).collect::<String>()
        }
        Op::AnnotateCustom { words } => {
            let mut toks: Vec<ATok> = words.iter().map(|w| ATok { lower: w.to_lowercase(), nan: false, log: &log }).collect();
            l.basic_annotate(&mut toks);
            toks.iter().map(|t| if t.nan { '!' } else { '.' }).collect::<String>()
        }
        Op::Lookup { code, text } => match get_interpreter_for(code) {
            Some(li) => match text2digits(text, &li) {
                Ok(s) => format!("Some:Ok({s})"),
                Err(e) => format!("Some:Err({e:?})"),
            },
            None => "None".to_string(),
        },
    });
    let res = match r {
        Ok(s) => s,
        Err(_) => "PANIC".to_string(),
    };
    let post = purity_probe(l);
    if pre != post {
        return format!("{PURITY_MARK}trait-method probe before the call body {pre:?}, the same calls after it {post:?}; result {res:?}");
    }
    // the probe before the body is part of the result: compared with the pristine table (H1/H2)
    let res = format!("{res} ~{pre}");
    if reentry_flag.get() {
        // a library call nested inside a caller callback did not give what it gives on its own
        format!("{REENTRANT_MARK}{res}")
    } else {
        res
    }
}

pub const UNWIND_MARK: &str = "UNWIND-MISMATCH ";

/// Execute a call on the given set of interpreters.
pub fn exec_call(ls: &Langs, call: &Call, yield_on: bool) -> String {
    // allocator seam: while the call runs, small blocks freed on this thread are handed out again for the
    // next same-sized request of a library call on this thread (deterministic address reuse)
    let prev = crate::alloc::in_library(true);
    let r = exec_call_inner(ls, call, yield_on);
    crate::alloc::in_library(prev);
    r
}

fn exec_call_inner(ls: &Langs, call: &Call, yield_on: bool) -> String {
    let normal = with_lang!(ls, call.lang, call.concrete, l => exec_with(l, call, yield_on));
    if !call.during_unwind {
        return normal;
    }
    // the same call again, from a destructor that runs during unwinding
    struct OnDrop<'a> {
        ls: &'a Langs,
        call: &'a Call,
        yield_on: bool,
        out: &'a std::cell::RefCell<Option<String>>,
    }
    impl Drop for OnDrop<'_> {
        fn drop(&mut self) {
            let r = with_lang!(self.ls, self.call.lang, self.call.concrete, l => exec_with(l, self.call, self.yield_on));
            *self.out.borrow_mut() = Some(r);
        }
    }
    let out = std::cell::RefCell::new(None);
    let _ = std::panic::catch_unwind(std::panic::AssertUnwindSafe(|| {
        let _g = OnDrop { ls, call, yield_on, out: &out };
        panic!("unrelated panic propagating on the calling thread");
    }));
    let unwinding = out.borrow_mut().take().unwrap_or_else(|| "<destructor did not run>".to_string());
    if unwinding != normal {
        format!("{UNWIND_MARK}normally {normal:?}, from a destructor during unwinding {unwinding:?}")
    } else {
        normal
    }
}

pub fn gen_call(rng: &mut Rng) -> Call {
    let lang = rng.below(7);
    let concrete = rng.chance(1, 2);
    let pool = &POOLS[lang];
    let cfg = GenCfg::swarm(rng);
    let thr = (*rng.pick(&THRESHOLDS)).to_string();
    let mut toks = {
        let n = rng.range(1, 14);
        gen_stream(rng, pool, &cfg, n)
    };
    let hint = *rng.pick(&[0u32, 0, 10]);
    for t in toks.iter_mut() {
        if hint > 0 && !t.is_glue() {
            t.separated = rng.chance(hint, 100);
            t.nan = rng.chance(hint / 2, 100);
        }
    }
    let words = |rng: &mut Rng, n: usize| -> Vec<String> {
        let mut w = vec![];
        while w.len() < n {
            if rng.chance(1, 2) {
                gen_number_phrase(rng, pool, &mut w);
            } else {
                w.push(rng.word(pool.units));
            }
        }
        w.into_iter().map(|s| s.to_string()).collect()
    };
    let op = match rng.below(12) {
        11 => {
            // words and separators as separate caller-owned tokens, ambiguity triggers included
            let n = rng.range(1, 10);
            let mut w: Vec<String> = vec![];
            for t in gen_stream(rng, pool, &cfg, n) {
                w.push(t.text);
                if rng.chance(1, 2) {
                    w.push(" ".to_string());
                }
            }
            Op::AnnotateCustom { words: w }
        }
        10 => {
            // a single inflectable word: ordinal, compound or composite
            let w = match rng.below(3) {
                0 => rng.word(pool.ordinals).to_string(),
                1 => gen_compound(rng, pool),
                _ => if pool.composite.is_empty() { rng.word(pool.ordinals).to_string() } else { rng.word(pool.composite).to_string() },
            };
            if rng.chance(1, 2) {
                Op::T2d { text: w }
            } else {
                Op::Rewrite { text: format!("{} {} {}", rng.word(pool.content), w, rng.word(pool.content)), thr }
            }
        }
        0 | 1 => {
            let n = rng.range(1, 6);
            Op::T2d { text: words(rng, n).join(" ") }
        }
        2 | 3 => {
            let n = rng.range(1, 12);
            Op::Rewrite { text: gen_text(rng, pool, &cfg, n), thr }
        }
        4 => Op::Find { toks, thr },
        5 => {
            let requests = *rng.pick(&[0usize, 1, 1, 2, 3, 100]);
            Op::FindIter { toks, thr, requests }
        }
        6 => Op::RewriteStream { toks, thr },
        7 => {
            let n = rng.range(1, 6);
            let w = words(rng, n);
            let decimal_from = if rng.chance(1, 3) { rng.range(1, w.len()) } else { usize::MAX };
            Op::Raw { words: w, decimal_from }
        }
        8 => {
            let n = rng.range(1, 10);
            Op::Annotate { text: gen_text(rng, pool, &cfg, n) }
        }
        _ => {
            let known = crate::vocab::LANG_CODES_KNOWN;
            let code = if !known.is_empty() && rng.chance(1, 3) {
                // any code the tree under test knows about
                rng.word(known).to_string()
            } else if rng.chance(2, 3) {
                LANG_CODES[lang].to_string()
            } else {
                (*rng.pick(&["", "xx", "EN", "eng", "pt", "de "])).to_string()
            };
            let n = rng.range(1, 4);
            Op::Lookup { code, text: words(rng, n).join(" ") }
        }
    };
    let crash_at = if rng.chance(1, 6) { rng.range(1, 25) as u64 } else { 0 };
    let reenter = if rng.chance(1, 8) { rng.range(1, 6) as u64 } else { 0 };
    // crash_at panics inside the call: nested panics while unwinding would abort, so only crash-free calls
    let during_unwind = crash_at == 0 && rng.chance(1, 10);
    Call { lang, concrete, op, crash_at, reenter, during_unwind }
}

/// The corpus and its reference table (computed in a pristine child process).
pub struct Corpus {
    pub calls: Vec<Call>,
    pub expected: Vec<String>,
}

fn inflect(rng: &mut Rng, w: &str) -> String {
    let mut chars: Vec<char> = w.chars().collect();
    if chars.is_empty() {
        return w.to_string();
    }
    let last = *chars.last().unwrap();
    match rng.below(6) {
        0 => {
            // gender / number vowel
            let repl = match last {
                'o' => *rng.pick(&['a', 'i', 'e']),
                'a' => *rng.pick(&['o', 'e']),
                'e' => *rng.pick(&['i', 'a', 'o']),
                'i' => *rng.pick(&['e', 'o']),
                _ => last,
            };
            *chars.last_mut().unwrap() = repl;
            chars.into_iter().collect()
        }
        1 => {
            if last == 's' {
                chars.pop();
            } else {
                chars.push('s');
            }
            chars.into_iter().collect()
        }
        2 => {
            // German adjective endings on ordinals
            if w.ends_with("te") {
                format!("{w}{}", rng.pick(&['r', 'n', 's', 'm']))
            } else if w.ends_with("ter") || w.ends_with("ten") || w.ends_with("tes") || w.ends_with("tem") {
                chars.pop();
                chars.into_iter().collect()
            } else {
                format!("{w}e")
            }
        }
        3 => w.to_uppercase(),
        4 => {
            let mut c = w.chars();
            match c.next() {
                Some(f) => f.to_uppercase().collect::<String>() + c.as_str(),
                None => String::new(),
            }
        }
        _ => w.to_string(),
    }
}

fn inflect_text(rng: &mut Rng, text: &str) -> String {
    let words: Vec<&str> = text.split(' ').collect();
    let cands: Vec<usize> = (0..words.len()).filter(|&i| words[i].chars().any(|c| c.is_alphabetic())).collect();
    if cands.is_empty() {
        return text.to_string();
    }
    // long words are the compounds and ordinals whose endings the lemmatizers strip
    let long: Vec<usize> = cands.iter().copied().filter(|&i| words[i].chars().count() >= 8).collect();
    let k = if !long.is_empty() && rng.chance(3, 4) { *rng.pick(&long) } else { *rng.pick(&cands) };
    let mut out: Vec<String> = words.iter().map(|s| s.to_string()).collect();
    out[k] = inflect(rng, words[k]);
    out.join(" ")
}

fn inflect_toks(rng: &mut Rng, toks: &[TokSpec]) -> Vec<TokSpec> {
    let mut t = toks.to_vec();
    let cands: Vec<usize> = (0..t.len()).filter(|&i| !t[i].is_glue()).collect();
    if let Some(&k) = cands.get(rng.below(cands.len().max(1))) {
        let w = inflect(rng, &t[k].text);
        t[k].lower = w.to_lowercase();
        t[k].text = w;
    }
    t
}

/// A call related to `c`: one word inflected (gender, number, case ending, letter case), another
/// threshold, the other access path (facade / concrete type), or an injected crash. Related calls
/// are what a cache keyed too coarsely, or a buffer reused across calls, confuses.
pub fn variant_of(rng: &mut Rng, c: &Call) -> Call {
    let mut v = c.clone();
    match rng.below(14) {
        0 => v.concrete = !v.concrete,
        12 => match &mut v.op {
            // same words, other hint flags
            Op::Find { toks, .. } | Op::FindIter { toks, .. } | Op::RewriteStream { toks, .. } => {
                let cands: Vec<usize> = (0..toks.len()).filter(|&i| !toks[i].is_glue()).collect();
                if !cands.is_empty() {
                    let k = *rng.pick(&cands);
                    if rng.chance(1, 2) {
                        toks[k].separated = !toks[k].separated;
                    } else {
                        toks[k].nan = !toks[k].nan;
                    }
                }
            }
            _ => v.concrete = !v.concrete,
        },
        13 => match &mut v.op {
            // same stream, another consumer schedule
            Op::FindIter { requests, .. } => *requests = *rng.pick(&[0usize, 1, 2, 3, 100]),
            Op::Raw { decimal_from, words } => *decimal_from = if *decimal_from == usize::MAX { rng.range(1, words.len().max(1)) } else { usize::MAX },
            _ => {
                v.crash_at = if c.crash_at == 0 { rng.range(1, 20) as u64 } else { 0 };
                v.during_unwind = false;
            }
        },
        10 | 11 => {
            // the very same call through another language (same type when both are the facade)
            v.lang = (c.lang + 1 + rng.below(6)) % 7;
            if rng.chance(1, 2) {
                v.concrete = false;
            }
        }
        1 => {
            v.crash_at = if c.crash_at == 0 { rng.range(1, 20) as u64 } else { 0 };
            v.during_unwind = false;
        }
        2 => {
            let t = (*rng.pick(&THRESHOLDS)).to_string();
            match &mut v.op {
                Op::Rewrite { thr, .. } | Op::Find { thr, .. } | Op::FindIter { thr, .. } | Op::RewriteStream { thr, .. } => *thr = t,
                _ => v.concrete = !v.concrete,
            }
        }
        _ => match &mut v.op {
            Op::T2d { text } | Op::Rewrite { text, .. } | Op::Annotate { text } | Op::Lookup { text, .. } => *text = inflect_text(rng, text),
            Op::Find { toks, .. } | Op::FindIter { toks, .. } | Op::RewriteStream { toks, .. } => *toks = inflect_toks(rng, toks),
            Op::Raw { words, .. } | Op::AnnotateCustom { words } => {
                let k = rng.below(words.len().max(1));
                if let Some(w) = words.get_mut(k) {
                    *w = inflect(rng, w).to_lowercase();
                }
            }
        },
    }
    v
}

/// Corpus = families of related calls; `family_start[i]` is the index of the first member
/// of the family call i belongs to.
/// Every ending a lemmatizer might strip or a marker might depend on, applied to `w`.
fn all_inflections(w: &str) -> Vec<String> {
    let mut v = vec![w.to_string()];
    let chars: Vec<char> = w.chars().collect();
    if let Some(&last) = chars.last() {
        let stem: String = chars[..chars.len() - 1].iter().collect();
        if matches!(last, 'o' | 'a' | 'e' | 'i') {
            for r in ['o', 'a', 'e', 'i'] {
                if r != last {
                    v.push(format!("{stem}{r}"));
                }
            }
            v.push(format!("{stem}os"));
            v.push(format!("{stem}as"));
        }
        if last == 's' {
            v.push(stem.clone());
        } else {
            v.push(format!("{w}s"));
        }
        if w.ends_with("te") {
            for r in ['r', 'n', 's', 'm'] {
                v.push(format!("{w}{r}"));
            }
        }
        if w.ends_with("ier") {
            v.push(format!("{}ière", &w[..w.len() - 3]));
            v.push(format!("{w}s"));
        }
    }
    let mut c = w.chars();
    if let Some(f) = c.next() {
        v.push(f.to_uppercase().collect::<String>() + c.as_str());
    }
    v
}

/// Systematic families: every inflectable pool word (ordinals, composites, generated compounds)
/// with all its inflections, as adjacent calls - what a cache keyed by a normalised form confuses.
fn systematic_families(rng: &mut Rng, budget: usize) -> Vec<Call> {
    let mut out = vec![];
    let mut lang_order: Vec<usize> = (0..7).collect();
    for i in (1..7).rev() {
        let j = rng.below(i + 1);
        lang_order.swap(i, j);
    }
    let per_lang = budget / 7;
    for &lang in &lang_order {
        let pool = &POOLS[lang];
        let mut words: Vec<String> = pool
            .ordinals
            .iter()
            .chain(pool.composite.iter())
            .chain(crate::vocab::vocab(lang).iter())
            .map(|s| s.to_string())
            .collect();
        words.sort();
        words.dedup();
        for _ in 0..6 {
            words.push(gen_compound(rng, pool));
        }
        // shuffle, so that different seeds sweep different words first
        for i in (1..words.len()).rev() {
            let j = rng.below(i + 1);
            words.swap(i, j);
        }
        // a few decimals and ordinals in sentence context per language (formatting paths)
        for _ in 0..12 {
            let text = format!(
                "{} {} {} {} {} {}",
                rng.word(pool.content),
                rng.word(pool.tens),
                rng.word(pool.decsep),
                rng.word(pool.zero),
                rng.word(pool.units),
                rng.word(pool.content)
            );
            out.push(Call { lang, concrete: rng.chance(1, 2), op: Op::Rewrite { text, thr: "0".into() }, crash_at: 0, reenter: 0, during_unwind: false });
        }
        // ordered pairs of ordinals / zero words / units as consecutive single-word calls (what one call
        // leaves behind for the next)
        {
            // every ordered pair of (ordinals + zero words), each exactly once as two consecutive calls:
            // an Eulerian circuit of the complete directed graph with loops (n*n + 1 calls)
            let mut nodes: Vec<&'static str> = pool.ordinals.iter().chain(pool.zero.iter()).copied().collect();
            nodes.sort();
            nodes.dedup();
            nodes.truncate(16);
            let n = nodes.len();
            let start = rng.below(n.max(1));
            let mut next_edge = vec![0usize; n];
            let mut stack = vec![start];
            let mut circuit: Vec<usize> = Vec::with_capacity(n * n + 1);
            while let Some(&u) = stack.last() {
                if next_edge[u] < n {
                    let v = (u + 1 + next_edge[u]) % n;
                    next_edge[u] += 1;
                    stack.push(v);
                } else {
                    circuit.push(u);
                    stack.pop();
                }
            }
            let concrete = rng.chance(1, 2);
            for &u in circuit.iter().rev() {
                out.push(Call { lang, concrete, op: Op::T2d { text: nodes[u].to_string() }, crash_at: 0, reenter: 0, during_unwind: false });
            }
            // plus a few random pairs with units
            let cands: Vec<&'static str> = pool.ordinals.iter().chain(pool.units.iter()).copied().collect();
            for _ in 0..8 {
                for w in [rng.word(&cands), rng.word(&cands)] {
                    out.push(Call { lang, concrete, op: Op::T2d { text: w.to_string() }, crash_at: 0, reenter: 0, during_unwind: false });
                }
            }
        }
        // two long calls per language (positions in the hundreds)
        {
            let cfg = GenCfg::swarm(rng);
            let n = rng.range(300, 600);
            let toks = gen_stream(rng, pool, &GenCfg { glue_pct: 0, ..cfg.clone() }, n);
            out.push(Call { lang, concrete: rng.chance(1, 2), op: Op::Find { toks, thr: "0".into() }, crash_at: 0, reenter: 0, during_unwind: false });
            let n = rng.range(300, 600);
            let text = gen_text(rng, pool, &cfg, n);
            out.push(Call { lang, concrete: rng.chance(1, 2), op: Op::Rewrite { text, thr: "10".into() }, crash_at: 0, reenter: 0, during_unwind: false });
        }
        // compound grid of the splitter languages: units x tens as single-word calls (many share a byte
        // length and differ in their first split point: material for the dense-contention runs)
        if matches!(pool.code, "de" | "nl" | "it") {
            let concrete = rng.chance(1, 2);
            for u in pool.units.iter().take(9) {
                for t in pool.tens.iter().take(8) {
                    let w = match pool.code {
                        "de" => format!("{u}und{t}"),
                        "nl" => format!("{u}en{t}"),
                        _ => format!("{t}{u}"),
                    };
                    out.push(Call { lang, concrete, op: Op::T2d { text: w }, crash_at: 0, reenter: 0, during_unwind: false });
                }
            }
        }
        // cross-talk between interpreters: the same word asked of every language in a row, starting with
        // its own (state keyed by the word alone, or shared between the splitters / interpreters of
        // different languages, shows as soon as the answers differ between languages)
        {
            let mut ws: Vec<String> = pool.composite.iter().map(|s| s.to_string()).collect();
            ws.extend(pool.hundreds.iter().take(2).map(|s| s.to_string()));
            for _ in 0..4 {
                ws.push(gen_compound(rng, pool));
            }
            for w in ws {
                let concrete = rng.chance(1, 2);
                // (k = 7: its own language once more, after all the others)
                for k in 0..8 {
                    out.push(Call { lang: (lang + k) % 7, concrete, op: Op::T2d { text: w.clone() }, crash_at: 0, reenter: 0, during_unwind: false });
                }
            }
        }
        let start = out.len();
        'w: for w in &words {
            for v in all_inflections(w) {
                if out.len() - start >= per_lang {
                    break 'w;
                }
                let concrete = rng.chance(1, 2);
                let op = match rng.below(4) {
                    0 => Op::Rewrite { text: format!("{} {} {}", rng.word(pool.content), v, rng.word(pool.content)), thr: "0".into() },
                    1 => Op::Raw { words: vec![v.to_lowercase()], decimal_from: usize::MAX },
                    _ => Op::T2d { text: v },
                };
                out.push(Call { lang, concrete, op, crash_at: 0, reenter: 0, during_unwind: false });
            }
        }
    }
    out
}

pub fn gen_corpus(seed: u64, n: usize) -> Vec<Call> {
    let mut rng = Rng::new(crate::rng::run_seed(seed, "C14-corpus", 0));
    let mut out: Vec<Call> = vec![];
    for (k, code) in crate::vocab::LANG_CODES_KNOWN.iter().enumerate() {
        out.push(Call {
            lang: k % 7,
            concrete: false,
            op: Op::Lookup { code: code.to_string(), text: rng.word(POOLS[k % 7].units).to_string() },
            crash_at: 0,
            reenter: 0,
            during_unwind: false,
        });
    }
    out.extend(systematic_families(&mut rng, n / 2));
    while out.len() < n {
        let base = gen_call(&mut rng);
        let nvar = *rng.pick(&[0usize, 0, 1, 2, 3, 4]);
        out.push(base.clone());
        let mut prev = base;
        for _ in 0..nvar {
            // chains: a variant of a variant stays close to the base
            let from_prev = rng.chance(1, 2);
            let src = if from_prev { prev.clone() } else { out[out.len() - 1].clone() };
            let v = variant_of(&mut rng, &src);
            out.push(v.clone());
            prev = v;
        }
    }
    out.truncate(n);
    out
}

/// Reference semantics: fresh interpreters for every single call, reverse order.
pub fn reference_results(calls: &[Call]) -> Vec<String> {
    let mut out = vec![String::new(); calls.len()];
    for (i, c) in calls.iter().enumerate().rev() {
        // a fresh OS thread per call: fresh thread-local state as well
        out[i] = std::thread::scope(|s| {
            s.spawn(|| {
                let fresh = Langs::new();
                exec_call(&fresh, c, false)
            })
            .join()
            .unwrap_or_else(|_| "PANIC".to_string())
        });
    }
    out
}

#[derive(Clone, Debug, Serialize, Deserialize)]
pub struct Case {
    pub calls: Vec<Call>,
    pub expected: Vec<String>,
    /// per simulated caller thread: indices into `calls`
    pub threads: Vec<Vec<usize>>,
    pub policy: u8,
    pub sched_seed: u64,
    /// explicit schedule (thread chosen at every scheduling point); recorded on failure
    #[serde(default)]
    pub trace: Option<Vec<u8>>,
}

pub struct C14 {
    pub corpus: Corpus,
    /// index for dense-contention cases: per (language, byte length) the corpus indices of crash-free
    /// single-word calls on a splitter language (built on first use)
    pub dense: std::sync::OnceLock<Vec<Vec<usize>>>,
}

impl C14 {
    fn dense_buckets(&self) -> &Vec<Vec<usize>> {
        self.dense.get_or_init(|| {
            let mut m: std::collections::BTreeMap<(usize, usize), Vec<usize>> = Default::default();
            for (i, c) in self.corpus.calls.iter().enumerate() {
                if c.crash_at != 0 || c.reenter != 0 || c.during_unwind || ![0usize, 4, 5].contains(&c.lang) {
                    continue;
                }
                let w = match &c.op {
                    Op::T2d { text } if !text.contains(' ') => text.as_str(),
                    Op::Raw { words, .. } if words.len() == 1 => words[0].as_str(),
                    _ => continue,
                };
                if w.len() >= 8 {
                    m.entry((c.lang, w.len())).or_default().push(i);
                }
            }
            m.into_values().filter(|v| v.len() >= 2).collect()
        })
    }
}

pub struct Exec {
    pub results: Vec<Vec<(usize, String)>>,
    pub report: crate::sched::SchedReport,
}

pub fn run_case(case: &Case) -> Exec {
    let n = case.threads.len();
    let results: Arc<Mutex<Vec<Vec<(usize, String)>>>> = Arc::new(Mutex::new(vec![vec![]; n]));
    let expected_steps: u64 = case.threads.iter().map(|t| t.len() as u64 * 20).sum();
    let sched = Sched::new(n, Policy::from_code(case.policy), case.sched_seed, case.trace.clone(), expected_steps);
    // one set of long-lived interpreters per run, created once and shared by all of the run's
    // simulated threads and calls; a fresh set per run keeps runs independent of each other,
    // so that a violation replays from its own case alone
    let owned = Langs::new();
    let ls = &owned;
    let mut fns: Vec<Box<dyn FnOnce() + Send + '_>> = vec![];
    for (ti, idxs) in case.threads.iter().enumerate() {
        let results = results.clone();
        let calls = &case.calls;
        fns.push(Box::new(move || {
            for &ci in idxs {
                let r = exec_call(ls, &calls[ci], true);
                results.lock().unwrap()[ti].push((ci, r));
            }
            crate::alloc::drain();
        }));
    }
    let report = sched.run(fns);
    let results = results.lock().unwrap().clone();
    Exec { results, report }
}

impl Check for C14 {
    type Case = Case;
    fn id(&self) -> &'static str {
        "C14"
    }

    fn generate(&self, rng: &mut Rng) -> Case {
        // dense contention (one run in six): 2-4 caller threads hammer ONE splitter-language interpreter
        // with single compound words of the same byte length (check-then-act on state shared through
        // &self needs two callers inside the same few functions at the same time)
        if rng.chance(1, 6) && !self.dense_buckets().is_empty() {
            let buckets = self.dense_buckets();
            let b = &buckets[rng.below(buckets.len())];
            let nthreads = *rng.pick(&[2usize, 2, 3, 4, 6, 8]);
            let k = rng.range(2, b.len().min(6));
            let mut calls = vec![];
            let mut expected = vec![];
            let start = rng.below(b.len());
            for j in 0..k {
                let ci = b[(start + j * (1 + rng.below(3))) % b.len()];
                calls.push(self.corpus.calls[ci].clone());
                expected.push(self.corpus.expected[ci].clone());
            }
            // all callers go through the same (facade or concrete) interpreter object
            let concrete = calls[0].concrete;
            let mut keep_c = vec![];
            let mut keep_e = vec![];
            for (c, e) in calls.into_iter().zip(expected) {
                if c.concrete == concrete {
                    keep_c.push(c);
                    keep_e.push(e);
                }
            }
            let per_thread = rng.range(3, 8);
            let threads = (0..nthreads).map(|_| (0..per_thread).map(|_| rng.below(keep_c.len())).collect()).collect();
            return Case { calls: keep_c, expected: keep_e, threads, policy: rng.below(6) as u8, sched_seed: rng.next_u64(), trace: None };
        }
        let nthreads = *rng.pick(&[1usize, 1, 2, 2, 3, 4]);
        let per_thread = if nthreads == 1 { rng.range(4, 40) } else { rng.range(2, 10) };
        let mut calls = vec![];
        let mut expected = vec![];
        let mut threads = vec![];
        // a few calls are deliberately repeated within and across threads
        let pool_size = rng.range(2, nthreads * per_thread);
        // related calls (a base call and its variants) sit next to each other in the corpus:
        // pick small neighbourhoods rather than isolated calls
        let mut picks: Vec<usize> = vec![];
        while picks.len() < pool_size {
            let at = rng.below(self.corpus.calls.len());
            let width = *rng.pick(&[1usize, 1, 2, 3, 4]);
            for j in 0..width {
                picks.push((at + j) % self.corpus.calls.len());
            }
        }
        for p in &picks {
            calls.push(self.corpus.calls[*p].clone());
            expected.push(self.corpus.expected[*p].clone());
        }
        for _ in 0..nthreads {
            threads.push((0..per_thread).map(|_| rng.below(calls.len())).collect());
        }
        Case { calls, expected, threads, policy: rng.below(6) as u8, sched_seed: rng.next_u64(), trace: None }
    }

    fn execute(&self, case: &Case, stats: &mut Stats) -> RunResult {
        let ex = run_case(case);
        let mut fp = Fp::new();
        for b in &ex.report.trace {
            fp.u64(*b as u64);
        }
        stats.add("probe.scheduling_points", ex.report.steps);
        stats.add("probe.context_switches", ex.report.switches);
        if ex.report.uncontrolled > 0 {
            stats.add("probe.uncontrolled_windows", ex.report.uncontrolled);
        }
        for (site, n) in &ex.report.site_hits {
            let k = match site {
                1 => "probe.yield.exec_group",
                2 => "probe.yield.parser_push",
                3 => "probe.yield.en_annotate",
                4 => "probe.yield.fr_annotate",
                5 => "probe.yield.tracker_replace",
                6 => "probe.yield.splitter_is_splittable",
                7 => "probe.yield.splitter_split",
                _ => "probe.yield.caller_callbacks",
            };
            stats.add(k, *n);
        }
        let mut violation = None;
        for (ti, rs) in ex.results.iter().enumerate() {
            if rs.len() != case.threads[ti].len() && violation.is_none() {
                violation = Some(Violation {
                    oracle: "H0-thread-completed".into(),
                    detail: format!("simulated thread {ti} completed {} of {} calls", rs.len(), case.threads[ti].len()),
                });
            }
            for (k, (ci, got)) in rs.iter().enumerate() {
                fp.str(got);
                let call = &case.calls[*ci];
                if call.crash_at > 0 && got.starts_with("PANIC") {
                    stats.hit("fault.client_crash_mid_call");
                }
                if call.reenter > 0 {
                    stats.hit("fault.reentrant_nested_calls");
                }
                if let Op::FindIter { requests, .. } = &call.op {
                    if *requests < 100 {
                        stats.hit("fault.abandoned_lazy_iterator");
                    }
                }
                if got.starts_with(UNWIND_MARK) && violation.is_none() {
                    violation = Some(Violation {
                        oracle: "H6-unwinding".into(),
                        detail: format!("thread {ti} call #{k} {}: {}", serde_json::to_string(call).unwrap_or_default(), got),
                    });
                }
                if got.starts_with(PURITY_MARK) && violation.is_none() {
                    violation = Some(Violation {
                        oracle: "H8-method-purity".into(),
                        detail: format!("thread {ti} call #{k} {}: {}", serde_json::to_string(call).unwrap_or_default(), got),
                    });
                }
                if got.starts_with(REENTRANT_MARK) && violation.is_none() {
                    violation = Some(Violation {
                        oracle: "H5-reentrancy".into(),
                        detail: format!(
                            "thread {ti} call #{k} {}: a library call made from inside a caller-supplied interpreter callback (same thread, nested) panicked or gave a different result than the same call on its own",
                            serde_json::to_string(call).unwrap_or_default()
                        ),
                    });
                }
                if got != &case.expected[*ci] && violation.is_none() {
                    violation = Some(Violation {
                        oracle: if case.threads.len() == 1 { "H1-history-independence".into() } else { "H2-interleaving-independence".into() },
                        detail: format!(
                            "thread {ti} call #{k} {}: got {:?}, pristine process + fresh interpreter gives {:?} ({} simulated threads, {} scheduling points, {} switches)",
                            serde_json::to_string(call).unwrap_or_default(),
                            got,
                            case.expected[*ci],
                            case.threads.len(),
                            ex.report.steps,
                            ex.report.switches
                        ),
                    });
                }
            }
        }
        if case.threads.len() > 1 {
            stats.hit("probe.multi_thread_runs");
            let l0 = case.calls.first().map(|c| c.lang);
            let one_word = |c: &Call| match &c.op {
                Op::T2d { text } => !text.contains(' '),
                Op::Raw { words, .. } => words.len() == 1,
                _ => false,
            };
            if case.calls.iter().all(|c| Some(c.lang) == l0 && one_word(c)) {
                stats.hit("probe.dense_contention_runs");
            }
        }
        RunResult {
            fingerprint: fp.finish(),
            nontrivial: case.threads.len() > 1 && ex.report.switches > 0 || case.threads.len() == 1,
            events: ex.report.steps,
            violation,
        }
    }

    fn shrink(&self, case: &Case) -> Vec<Case> {
        let mut out = vec![];
        // schedule re-search is folded into shrinking: each structural candidate is offered with
        // the original schedule seed and with a handful of fresh ones
        let reseed = |c: &Case, out: &mut Vec<Case>| {
            out.push(Case { trace: None, ..c.clone() });
            for k in 1..6u64 {
                out.push(Case { trace: None, sched_seed: c.sched_seed.wrapping_add(k * 0x9E37_79B9), policy: (k % 6) as u8, ..c.clone() });
            }
        };
        // drop calls no thread refers to (re-index) before anything else: it makes every later clone cheap
        let used0: Vec<bool> = (0..case.calls.len()).map(|i| case.threads.iter().any(|t| t.contains(&i))).collect();
        if used0.iter().any(|u| !u) {
            let mut map = vec![0usize; case.calls.len()];
            let mut c = Case { calls: vec![], expected: vec![], ..case.clone() };
            for i in 0..case.calls.len() {
                if used0[i] {
                    map[i] = c.calls.len();
                    c.calls.push(case.calls[i].clone());
                    c.expected.push(case.expected[i].clone());
                }
            }
            for t in c.threads.iter_mut() {
                for x in t.iter_mut() {
                    *x = map[*x];
                }
            }
            return vec![c];
        }
        // fewer threads
        if case.threads.len() > 1 {
            for t in 0..case.threads.len() {
                let mut c = case.clone();
                c.threads.remove(t);
                reseed(&c, &mut out);
            }
        }
        // fewer calls per thread
        for t in 0..case.threads.len() {
            let n = case.threads[t].len();
            if n > 2 {
                let mut c = case.clone();
                c.threads[t] = case.threads[t][n / 2..].to_vec();
                reseed(&c, &mut out);
                let mut c = case.clone();
                c.threads[t] = case.threads[t][..n / 2].to_vec();
                reseed(&c, &mut out);
            }
            // chunk removal for long histories, single-call removal only once they are short
            if n > 64 {
                let step = n / 8;
                for k in 0..8 {
                    let mut c = case.clone();
                    c.threads[t].drain(k * step..((k + 1) * step).min(n));
                    out.push(Case { trace: None, ..c });
                }
                continue;
            }
            for i in 0..n {
                if case.threads.len() == 1 && n == 1 {
                    break;
                }
                let mut c = case.clone();
                c.threads[t].remove(i);
                if c.threads[t].is_empty() && c.threads.len() > 1 {
                    continue;
                }
                reseed(&c, &mut out);
            }
        }
        // drop unused calls (re-index)
        let used: Vec<bool> = (0..case.calls.len()).map(|i| case.threads.iter().any(|t| t.contains(&i))).collect();
        if used.iter().any(|u| !u) {
            let mut map = vec![0usize; case.calls.len()];
            let mut c = Case { calls: vec![], expected: vec![], ..case.clone() };
            for i in 0..case.calls.len() {
                if used[i] {
                    map[i] = c.calls.len();
                    c.calls.push(case.calls[i].clone());
                    c.expected.push(case.expected[i].clone());
                }
            }
            for t in c.threads.iter_mut() {
                for x in t.iter_mut() {
                    *x = map[*x];
                }
            }
            out.push(c);
        }
        out
    }

    fn rule(&self) -> String {
        "A run is one simulated client population: 1 thread (history simulation, 4-40 calls) or 2-4 threads (2-10 calls \
         each) executing seeded calls-as-data (text2digits, replace_numbers_in_text, find_numbers, find_numbers_iter \
         abandoned after k requests, replace_numbers_in_stream, raw apply/apply_decimal/exec_group/format on a caller-owned \
         builder, tokenizer+basic_annotate, get_interpreter_for; 1 in 6 with an injected client crash at a seeded seam \
         crossing) on one process-wide set of long-lived interpreters, under the harness's deterministic scheduler \
         (uniform, sticky 1/4 1/16 1/64, PCT depth 1 and 3) switching at every caller callback and every library \
         yield point. Every result must equal the reference table computed by a pristine child process with a fresh \
         interpreter per call in reverse order. Non-trivial = single-thread history, or a multi-thread run with at \
         least one context switch; distinct = distinct (schedule trace, results) fingerprints (bitmap sketch)."
            .into()
    }

    fn assumptions(&self) -> Vec<String> {
        vec![
            "the scheduler switches only at caller callbacks and verif yield points (the library has no synchronisation of its own); finer interleavings are explored by the Miri layer of the thorough tier only".into(),
            "a simulated thread that makes no progress for 250 ms while it alone may run is presumed blocked on a library lock held by a parked thread; another thread is released and the window is counted as uncontrolled (0 on the current tree)".into(),
            "the reference table is trusted to be history-free because it is computed in a separate process, with fresh interpreters for every call, in reverse order; a sample of calls is additionally computed one process per call".into(),
            "seeded sampling, not proof".into(),
        ]
    }

    fn real_components(&self) -> Vec<&'static str> {
        vec![
            "every public entry point of text2num and the raw LangInterpreter methods of all seven interpreters (facade and concrete), shared process-wide",
            "std::thread OS threads with real thread_local! semantics",
        ]
    }

    fn stub_components(&self) -> Vec<&'static str> {
        vec![
            "caller threads' scheduling (deterministic scheduler owned by the harness)",
            "token type, token source, Replace constructor, caller-supplied interpreter wrapper (crash injection)",
        ]
    }

    fn fault_kinds(&self) -> Vec<&'static str> {
        vec!["fault.client_crash_mid_call", "fault.abandoned_lazy_iterator", "fault.reentrant_nested_calls"]
    }
}
