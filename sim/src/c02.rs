//! C02 — rewriting is local. Stream clause: the simulator owns the tokens (unique ids,
//! drop tracking) and the `Replace` constructor (a recording sink whose consumption
//! behaviour is a fault dimension); the oracle is conservation / exactly-once over the
//! recorded hand-off history. Text clause (fault-free configuration): tokenizer round
//! trip and `replace_numbers_in_text` against the harness's own splice.

use std::cell::RefCell;

use serde::{Deserialize, Serialize};
use text2num::verif::{tokenize, BasicToken};
use text2num::{find_numbers, replace_numbers_in_stream, replace_numbers_in_text, LangInterpreter, Replace, Token};

use crate::driver::{guarded, Check, RunResult, Stats, Violation};
use crate::pools::{threshold_of, Pool, POOLS, THRESHOLDS};
use crate::rng::{Fp, Rng};
use crate::stream::*;

#[derive(Clone, Debug, Serialize, Deserialize)]
pub struct Case {
    pub lang: usize,
    pub concrete: bool,
    pub thr: String,
    /// stream clause
    pub toks: Vec<TokSpec>,
    /// 0 all, 1 none, 2 first k, 3 skip k then rest, 4 every other, 5 all + keep alive past the call,
    /// 6 all, and the constructor returns the first token it was given (with the data attached),
    /// 7 all, and the constructor makes nested library calls on the same thread (re-entrancy)
    pub sink_mode: u8,
    pub sink_k: usize,
    /// text clause (fault-free configuration); empty = skip
    pub text: String,
    /// client-crash fault: before the text clause, a call on the same thread whose
    /// caller-supplied interpreter panics at its `crash_at`-th callback (0 = no such call)
    #[serde(default)]
    pub crash_text: String,
    #[serde(default)]
    pub crash_at: u64,
}

const NEW_ID_BASE: usize = 1_000_000;

pub struct RTok {
    id: usize,
    text: String,
    lower: String,
    separated: bool,
    nan: bool,
    data: Option<String>,
}

#[derive(Default)]
struct SinkCtx {
    mode: u8,
    k: usize,
    calls: Vec<(String, Vec<usize>, usize)>, // data, received ids, new token id
    dropped: Vec<usize>,
    stash: Vec<RTok>,
    next_new: usize,
    events: u64,
    nested_mismatch: bool,
}

/// token type of the nested stream call made by sink mode 7
struct NestedTok(String);
impl Token for &NestedTok {
    fn text(&self) -> &str {
        &self.0
    }
    fn text_lowercase(&self) -> &str {
        &self.0
    }
}
impl Replace for NestedTok {
    fn replace<I: Iterator<Item = Self>>(replaced: I, data: String) -> Self {
        let _ = replaced.count();
        NestedTok(data)
    }
}

thread_local! {
    static SINK: RefCell<SinkCtx> = RefCell::new(SinkCtx::default());
}

impl Drop for RTok {
    fn drop(&mut self) {
        let id = self.id;
        let _ = SINK.try_with(|s| {
            if let Ok(mut s) = s.try_borrow_mut() {
                s.dropped.push(id);
                s.events += 1;
            }
        });
    }
}

impl Token for &RTok {
    fn text(&self) -> &str {
        &self.text
    }
    fn text_lowercase(&self) -> &str {
        &self.lower
    }
    fn nt_separated(&self, _previous: &Self) -> bool {
        self.separated
    }
    fn not_a_number_part(&self) -> bool {
        self.nan
    }
}

impl Replace for RTok {
    fn replace<I: Iterator<Item = Self>>(mut replaced: I, data: String) -> Self {
        let (mode, k) = SINK.with(|s| {
            let s = s.borrow();
            (s.mode, s.k)
        });
        if mode == 7 {
            // nested calls from inside the caller's constructor: they must give what they give on
            // their own, and must not disturb the call in progress
            let en = text2num::lang::English::new();
            let a = text2num::replace_numbers_in_text("one, twenty two and three point five", &en, 0.0);
            let words: Vec<NestedTok> = "i have twenty five dollars and one two".split(' ').map(|w| NestedTok(w.to_string())).collect();
            let b: Vec<String> = text2num::replace_numbers_in_stream(words, &en, 0.0).into_iter().map(|t| t.0).collect();
            if a != "1, 22 and 3.5" || b.join(" ") != "i have 25 dollars and 1 2" {
                SINK.with(|s| s.borrow_mut().nested_mismatch = true);
            }
        }
        let mut taken: Vec<RTok> = Vec::new();
        match mode {
            1 => {}
            2 => {
                for _ in 0..k {
                    match replaced.next() {
                        Some(t) => taken.push(t),
                        None => break,
                    }
                }
            }
            3 => {
                if k > 0 {
                    // nth() consumes (and drops) k-1 tokens and returns the k-th
                    if let Some(t) = replaced.nth(k - 1) {
                        drop(t);
                    }
                }
                taken.extend(&mut replaced);
            }
            4 => {
                let mut keep = true;
                while let Some(t) = replaced.next() {
                    if keep {
                        taken.push(t);
                    }
                    keep = !keep;
                }
            }
            _ => taken.extend(&mut replaced),
        }
        drop(replaced); // the un-consumed remainder goes back to the library to dispose of
        let ids: Vec<usize> = taken.iter().map(|t| t.id).collect();
        let new_id = SINK.with(|s| {
            let mut s = s.borrow_mut();
            let nid = NEW_ID_BASE + s.next_new;
            s.next_new += 1;
            s.events += 1;
            s.calls.push((data.clone(), ids, nid));
            nid
        });
        if mode == 6 && !taken.is_empty() {
            // hand one of the received tokens back as the replacement
            let mut first = taken.remove(0);
            drop(taken);
            first.data = Some(data.clone());
            first.text = data.clone();
            first.lower = data.to_lowercase();
            SINK.with(|s| {
                if let Some(c) = s.borrow_mut().calls.last_mut() {
                    c.2 = first.id;
                }
            });
            return first;
        }
        if mode == 5 {
            let mut moved = Some(taken);
            SINK.with(|s| s.borrow_mut().stash.extend(moved.take().unwrap()));
        } else {
            drop(taken);
        }
        RTok { id: new_id, lower: data.to_lowercase(), text: data.clone(), separated: false, nan: false, data: Some(data) }
    }
}

fn viol(oracle: &str, detail: String) -> RunResult {
    RunResult { fingerprint: 0, nontrivial: true, events: 0, violation: Some(Violation { oracle: oracle.into(), detail }) }
}

fn mk_tokens(specs: &[TokSpec]) -> Vec<RTok> {
    specs
        .iter()
        .enumerate()
        .map(|(id, s)| RTok { id, text: s.text.clone(), lower: s.lower.clone(), separated: s.separated, nan: s.nan, data: None })
        .collect()
}

fn exec_stream<L: LangInterpreter>(l: &L, case: &Case, stats: &mut Stats, fp: &mut Fp) -> Result<bool, RunResult> {
    let thr = threshold_of(&case.thr);
    let n = case.toks.len();
    let pool = &POOLS[case.lang % 7];
    let old_stash = SINK.with(|s| std::mem::take(&mut s.borrow_mut().stash));
    drop(old_stash);
    SINK.with(|s| {
        *s.borrow_mut() = SinkCtx { mode: case.sink_mode, k: case.sink_k, ..Default::default() };
    });

    let input = mk_tokens(&case.toks);
    let occs: Vec<Occ> = match guarded(|| find_numbers(input.iter(), l, thr).into_iter().map(Occ::from).collect()) {
        Ok(o) => o,
        Err(_) => {
            stats.hit("probe.find_numbers_panicked_skipped");
            drop(input);
            return Ok(false);
        }
    };
    // occurrences must be usable for a splice at all
    let mut last_end = 0;
    for o in &occs {
        if o.start < last_end || o.end <= o.start || o.end > n {
            return Err(viol(
                "S0-spans-spliceable",
                format!("lang={} thr={} overlapping/out-of-order/out-of-range spans {} on stream {}", pool.code, case.thr, fmt_occs(&occs), fmt_toks(&case.toks)),
            ));
        }
        last_end = o.end;
    }
    let out = match guarded(|| replace_numbers_in_stream(input, l, thr)) {
        Ok(o) => o,
        Err(p) => {
            return Err(viol(
                "S1-stream-splice",
                format!("replace_numbers_in_stream panicked ({p}) where find_numbers did not; stream {}", fmt_toks(&case.toks)),
            ))
        }
    };
    let (calls, dropped_during) = SINK.with(|s| {
        let s = s.borrow();
        (s.calls.clone(), s.dropped.clone())
    });
    let ctx = || {
        format!(
            "lang={} thr={} sink_mode={} k={} stream: {} | occurrences: {} | output ids: {:?} | sink calls: {:?}",
            pool.code,
            case.thr,
            case.sink_mode,
            case.sink_k,
            fmt_toks(&case.toks),
            fmt_occs(&occs),
            out.iter().map(|t| t.id).collect::<Vec<_>>(),
            calls
        )
    };
    if SINK.with(|s| s.borrow().nested_mismatch) {
        return Err(viol("S6-reentrancy", format!("a library call nested inside the caller's Replace constructor did not give what it gives on its own; {}", ctx())));
    }
    // S2: the constructor is invoked once per occurrence
    if calls.len() != occs.len() {
        return Err(viol("S2-one-constructor-call-per-occurrence", format!("{} calls for {} occurrences; {}", calls.len(), occs.len(), ctx())));
    }
    // S1: output = input with each occurrence range replaced by the sink's token
    let mut j = 0usize;
    let mut i = 0usize;
    let mut oi = 0usize;
    while i < n {
        if oi < occs.len() && occs[oi].start == i {
            let o = &occs[oi];
            let Some(t) = out.get(j) else {
                return Err(viol("S1-stream-splice", format!("output ends early at occurrence {}; {}", fmt_occs(std::slice::from_ref(o)), ctx())));
            };
            let Some(call) = calls.iter().find(|c| c.2 == t.id) else {
                return Err(viol("S1-stream-splice", format!("output position {j}: expected the replacement of {} but found token id {}; {}", fmt_occs(std::slice::from_ref(o)), t.id, ctx())));
            };
            if t.data.as_deref() != Some(o.text.as_str()) || call.0 != o.text {
                return Err(viol("S3-replacement-data", format!("replacement built from {:?} but the occurrence text is {:?}; {}", call.0, o.text, ctx())));
            }
            // hand-off: exactly the ids of the range (mode all), otherwise what the sink's
            // consumption pattern selects from start..end, in order
            let range: Vec<usize> = (o.start..o.end).collect();
            let expect: Vec<usize> = match case.sink_mode {
                1 => vec![],
                2 => range.iter().copied().take(case.sink_k).collect(),
                3 => range.iter().copied().skip(case.sink_k).collect(),
                4 => range.iter().copied().step_by(2).collect(),
                _ => range.clone(),
            };
            if call.1 != expect {
                return Err(viol("S4-handed-exactly-once-in-order", format!("constructor for {} received ids {:?}, expected {:?}; {}", fmt_occs(std::slice::from_ref(o)), call.1, expect, ctx())));
            }
            i = o.end;
            j += 1;
            oi += 1;
        } else {
            let Some(t) = out.get(j) else {
                return Err(viol("S1-stream-splice", format!("input token #{i} missing from the output; {}", ctx())));
            };
            if t.id != i || t.text != case.toks[i].text || t.lower != case.toks[i].lower {
                return Err(viol("S1-stream-splice", format!("output position {j}: expected kept input token #{i} {:?}, found id {} {:?}; {}", case.toks[i].text, t.id, t.text, ctx())));
            }
            i += 1;
            j += 1;
        }
    }
    if j != out.len() {
        return Err(viol("S1-stream-splice", format!("{} extra tokens at the end of the output; {}", out.len() - j, ctx())));
    }
    // S5 conservation: every input id is kept, or received by one constructor, or disposed
    // of un-consumed inside its occurrence's call - exactly once
    let mut count = vec![0u32; n];
    for t in &out {
        if t.id < n {
            count[t.id] += 1;
        }
    }
    for id in &dropped_during {
        if *id < n {
            count[*id] += 1;
        }
    }
    if case.sink_mode == 5 {
        SINK.with(|s| {
            for t in &s.borrow().stash {
                if t.id < n {
                    count[t.id] += 1;
                }
            }
        });
    }
    if let Some(bad) = count.iter().position(|&c| c != 1) {
        return Err(viol("S5-conservation", format!("input token #{bad} accounted for {} times (kept + handed + disposed); {}", count[bad], ctx())));
    }
    let in_occ = |id: usize| occs.iter().any(|o| o.start <= id && id < o.end);
    for id in &dropped_during {
        if *id < n && !in_occ(*id) {
            return Err(viol("S5-conservation", format!("input token #{id} outside every occurrence was dropped; {}", ctx())));
        }
    }
    if !occs.is_empty() {
        match case.sink_mode {
            0 => stats.hit("fault.sink_consume_all"),
            1 => stats.hit("fault.sink_consume_none"),
            2 => stats.hit("fault.sink_first_k"),
            3 => stats.hit("fault.sink_skip_k"),
            4 => stats.hit("fault.sink_every_other"),
            5 => stats.hit("fault.sink_keep_alive_past_call"),
            6 => stats.hit("fault.sink_returns_received_token"),
            _ => stats.hit("fault.sink_makes_nested_calls"),
        }
        if occs.iter().any(|o| o.end - o.start > 1) {
            stats.hit("probe.multi_token_occurrence");
        }
        if occs.len() > 1 {
            stats.hit("probe.several_occurrences");
        }
    }
    for o in &occs {
        fp.u64(o.start as u64);
        fp.u64(o.end as u64);
        fp.str(&o.text);
    }
    fp.u64(case.sink_mode as u64);
    fp.u64(out.len() as u64);
    let ev = SINK.with(|s| s.borrow().events);
    fp.u64(ev);
    drop(out);
    SINK.with(|s| {
        let st = std::mem::take(&mut s.borrow_mut().stash);
        drop(st);
    });
    Ok(!occs.is_empty())
}

fn exec_text<L: LangInterpreter>(l: &L, case: &Case, stats: &mut Stats, fp: &mut Fp) -> Result<bool, RunResult> {
    let s = case.text.as_str();
    if s.is_empty() {
        return Ok(false);
    }
    let thr = threshold_of(&case.thr);
    if case.crash_at > 0 {
        // an earlier call on this thread dies inside a caller-supplied interpreter; whatever the
        // library kept from it must not change the rewriting of `s`
        let cl = CrashLang::new(l, case.crash_at);
        match guarded(|| replace_numbers_in_text(&case.crash_text, &cl, thr)) {
            Err(_) => stats.hit("fault.interpreter_crash_in_earlier_call"),
            Ok(_) => stats.hit("probe.crash_point_beyond_end_of_call"),
        }
    }
    let pool = &POOLS[case.lang % 7];
    let mut toks: Vec<BasicToken> = match guarded(|| tokenize(s).collect()) {
        Ok(t) => t,
        Err(p) => return Err(viol("T1-tokenizer-roundtrip", format!("tokenize panicked: {p} on {s:?}"))),
    };
    let cat: String = toks.iter().map(|t| t.text.as_str()).collect();
    if cat != s {
        return Err(viol("T1-tokenizer-roundtrip", format!("concat(tokens) = {cat:?} but the text is {s:?}")));
    }
    let mine = guarded(|| {
        l.basic_annotate(&mut toks);
        let occs = find_numbers(toks.iter(), l, thr);
        let mut out = String::with_capacity(s.len());
        let mut i = 0;
        for o in &occs {
            while i < o.start {
                out.push_str(&toks[i].text);
                i += 1;
            }
            out.push_str(&o.text);
            i = o.end.max(i);
        }
        while i < toks.len() {
            out.push_str(&toks[i].text);
            i += 1;
        }
        (out, occs.len())
    });
    let theirs = guarded(|| replace_numbers_in_text(s, l, thr));
    match (mine, theirs) {
        (Ok((mine, nocc)), Ok(theirs)) => {
            if mine != theirs {
                return Err(viol(
                    "T2-text-splice",
                    format!("lang={} thr={} text {s:?}: replace_numbers_in_text = {theirs:?}, splice of find_numbers = {mine:?}", pool.code, case.thr),
                ));
            }
            if nocc == 0 {
                stats.hit("probe.text_without_numbers_identical");
                if theirs != s {
                    return Err(viol("T3-no-number-identical", format!("text {s:?} has no occurrence but came back as {theirs:?}")));
                }
            }
            if !s.is_ascii() {
                stats.hit("probe.text_non_ascii");
            }
            fp.str(&theirs);
            Ok(nocc > 0)
        }
        (Err(_), Err(_)) => {
            stats.hit("probe.text_both_panicked_skipped");
            Ok(false)
        }
        (a, b) => Err(viol(
            "T2-text-splice",
            format!("one side panicked: splice {:?}, replace_numbers_in_text {:?}; text {s:?}", a.map(|x| x.0), b),
        )),
    }
}

fn exec<L: LangInterpreter>(l: &L, case: &Case, stats: &mut Stats) -> RunResult {
    let mut fp = Fp::new();
    let a = match exec_stream(l, case, stats, &mut fp) {
        Ok(a) => a,
        Err(r) => return r,
    };
    let b = match exec_text(l, case, stats, &mut fp) {
        Ok(b) => b,
        Err(r) => return r,
    };
    RunResult { fingerprint: fp.finish(), nontrivial: a || b, events: (case.toks.len() + case.text.len()) as u64, violation: None }
}

const EXOTIC: [&str; 30] = [
    "\u{feff}", "\u{200e}", "\u{2028}", "\u{ad}", "\u{fffd}", "\u{2010}", "\u{2011}", "\u{2060}",
    "é", "e\u{301}", "naïve", "שלום", "مرحبا", "日本語", "😀", "👨\u{200d}👩\u{200d}👧", "42", "3rd", "ß", "İ", "ǅ", "\u{200b}", "ﬁ", "Ⅷ", "x²",
    "a\u{308}\u{323}", "--", "'", "l'", "o'clock",
];
const SEPS: [&str; 21] = [
    " ", " ", " ", "  ", ", ", ". ", "; ", "\n", "\t", "\u{a0}", "\u{2009}", "-", " - ", "…", "! ", " (", ") ", ": ", "\r\n", ",\r\n",
    " \r\n ",
];

pub fn gen_text(rng: &mut Rng, pool: &Pool, cfg: &GenCfg, nwords: usize) -> String {
    let toks = gen_stream(rng, pool, &GenCfg { glue_pct: 0, ..cfg.clone() }, nwords);
    let exotic_pct = *rng.pick(&[0u32, 0, 5, 20]);
    let mut s = String::new();
    if rng.chance(1, 6) {
        s.push_str(rng.word(&SEPS));
    } else if exotic_pct > 0 && rng.chance(1, 8) {
        s.push_str(rng.word(&EXOTIC));
    }
    for (i, t) in toks.iter().enumerate() {
        if i > 0 {
            s.push_str(rng.word(&SEPS));
        }
        if exotic_pct > 0 && rng.chance(exotic_pct, 100) {
            if rng.chance(1, 3) {
                // arbitrary scalar values from a few blocks (letters with odd case mappings,
                // combining marks, RTL, CJK, emoji, separators, specials)
                for _ in 0..rng.range(1, 3) {
                    let (lo, hi) = *rng.pick(&[
                        (0x00A0u32, 0x024F),
                        (0x0300, 0x036F),
                        (0x0370, 0x03FF),
                        (0x0400, 0x04FF),
                        (0x0590, 0x06FF),
                        (0x1E00, 0x1FFF),
                        (0x2000, 0x206F),
                        (0x2100, 0x218F),
                        (0x3040, 0x30FF),
                        (0x4E00, 0x4FFF),
                        (0xFB00, 0xFB4F),
                        (0xFF00, 0xFFEF),
                        (0x1F300, 0x1F6FF),
                        (0x10400, 0x1044F),
                    ]);
                    if let Some(c) = char::from_u32(lo + rng.below((hi - lo + 1) as usize) as u32) {
                        s.push(c);
                    }
                }
            } else {
                s.push_str(rng.word(&EXOTIC));
            }
            if rng.chance(1, 2) {
                s.push_str(rng.word(&SEPS));
            }
        }
        s.push_str(&t.text);
        // something glued to the end of a word: a digit, a letter of another script, a mark
        if exotic_pct > 0 && rng.chance(exotic_pct, 200) {
            if rng.chance(1, 2) {
                s.push((b'0' + rng.below(10) as u8) as char);
            } else {
                s.push_str(rng.word(&EXOTIC));
            }
        }
    }
    if rng.chance(1, 4) {
        s.push_str(rng.word(&SEPS));
    }
    s
}

pub struct C02;

impl Check for C02 {
    type Case = Case;
    fn id(&self) -> &'static str {
        "C02"
    }

    fn generate(&self, rng: &mut Rng) -> Case {
        let lang = rng.below(7);
        let concrete = rng.chance(1, 2);
        let thr = (*rng.pick(&THRESHOLDS)).to_string();
        let pool = &POOLS[lang];
        let cfg = GenCfg::swarm(rng);
        let len = match rng.below(480) {
            0 => rng.range(800, 2500),
            1..=10 => rng.range(60, 300),
            _ => rng.range(0, 30),
        };
        let mut toks = gen_stream(rng, pool, &cfg, len);
        let hint_pct = *rng.pick(&[0u32, 0, 0, 10]);
        for t in toks.iter_mut() {
            if !t.is_glue() && hint_pct > 0 {
                if rng.chance(hint_pct, 100) {
                    t.separated = true;
                }
                if rng.chance(hint_pct / 2, 100) {
                    t.nan = true;
                }
            }
        }
        let sink_mode = *rng.pick(&[0u8, 0, 0, 1, 2, 3, 4, 5, 6, 7]);
        let sink_k = rng.below(4);
        let text = if rng.chance(3, 4) {
            // one text in 150 is a long document (thousands of bytes, hundreds of tokens)
            let n = match rng.below(9000) {
                // a transcript of ~100 KB (thorough: occasionally over 1 MB)
                0 => {
                    if crate::rng::thorough_tier() && rng.chance(1, 8) {
                        rng.range(150_000, 200_000)
                    } else {
                        rng.range(12_000, 16_000)
                    }
                }
                1..=60 => rng.range(500, 1500),
                _ => rng.range(0, 16),
            };
            gen_text(rng, pool, &cfg, n)
        } else {
            String::new()
        };
        let (crash_text, crash_at) = if !text.is_empty() && rng.chance(1, 3) {
            let n = rng.range(1, 10);
            (gen_text(rng, pool, &cfg, n), rng.range(1, 30) as u64)
        } else {
            (String::new(), 0)
        };
        Case { lang, concrete, thr, toks, sink_mode, sink_k, text, crash_text, crash_at }
    }

    fn execute(&self, case: &Case, stats: &mut Stats) -> RunResult {
        crate::with_fresh_lang!(case.lang, case.concrete, l => exec(l, case, stats))
    }

    fn shrink(&self, case: &Case) -> Vec<Case> {
        let mut out = vec![];
        if !case.text.is_empty() {
            out.push(Case { text: String::new(), ..case.clone() });
        }
        if !case.toks.is_empty() {
            out.push(Case { toks: vec![], ..case.clone() });
        }
        let n = case.toks.len();
        if n > 3 {
            out.push(Case { toks: case.toks[n / 2..].to_vec(), ..case.clone() });
            out.push(Case { toks: case.toks[..n / 2].to_vec(), ..case.clone() });
        }
        for i in 0..n {
            let mut c = case.clone();
            c.toks.remove(i);
            out.push(c);
        }
        for i in 0..n {
            if case.toks[i].separated || case.toks[i].nan || case.toks[i].text != case.toks[i].lower {
                let mut c = case.clone();
                c.toks[i].separated = false;
                c.toks[i].nan = false;
                c.toks[i].text = c.toks[i].lower.clone();
                out.push(c);
            }
        }
        // text: drop words, then characters
        if !case.text.is_empty() {
            let chars: Vec<(usize, char)> = case.text.char_indices().collect();
            let words: Vec<&str> = case.text.split(' ').collect();
            if words.len() > 8 {
                let h = words.len() / 2;
                out.push(Case { text: words[h..].join(" "), ..case.clone() });
                out.push(Case { text: words[..h].join(" "), ..case.clone() });
                let q = words.len() / 4;
                for k in 0..4 {
                    let mut w = words.clone();
                    w.drain(k * q..(k + 1) * q);
                    out.push(Case { text: w.join(" "), ..case.clone() });
                }
            }
            if words.len() > 1 && words.len() <= 80 {
                for i in 0..words.len() {
                    let mut w = words.clone();
                    w.remove(i);
                    out.push(Case { text: w.join(" "), ..case.clone() });
                }
            }
            if chars.len() <= 60 {
                for (pos, ch) in &chars {
                    let mut t = String::with_capacity(case.text.len());
                    t.push_str(&case.text[..*pos]);
                    t.push_str(&case.text[*pos + ch.len_utf8()..]);
                    out.push(Case { text: t, ..case.clone() });
                }
            }
        }
        if case.thr != "0" {
            out.push(Case { thr: "0".into(), ..case.clone() });
        }
        if case.concrete {
            out.push(Case { concrete: false, ..case.clone() });
        }
        if case.sink_mode != 0 {
            out.push(Case { sink_mode: 0, ..case.clone() });
        }
        if case.crash_at > 0 {
            out.push(Case { crash_at: 0, crash_text: String::new(), ..case.clone() });
            if case.crash_at > 1 {
                out.push(Case { crash_at: case.crash_at - 1, ..case.clone() });
            }
            let words: Vec<&str> = case.crash_text.split(' ').collect();
            if words.len() > 1 {
                for i in 0..words.len() {
                    let mut w = words.clone();
                    w.remove(i);
                    out.push(Case { crash_text: w.join(" "), ..case.clone() });
                }
            }
        }
        if case.sink_k > 0 {
            out.push(Case { sink_k: case.sink_k - 1, ..case.clone() });
        }
        out
    }

    fn rule(&self) -> String {
        "A run is (a) one simulated token stream (0-30 tokens with unique ids and drop tracking, seeded hint flags) pushed \
         through replace_numbers_in_stream with a simulator-owned Replace constructor whose consumption of the drained \
         tokens is a seeded fault (all / none / first k / skip k / every other / keep alive past the call), checked for \
         splice equality, one constructor call per occurrence, data, in-order exactly-once hand-off and conservation; and \
         (b) as the fault-free configuration one generated UTF-8 text (pool words, varied separators, multi-byte, combining, \
         RTL, emoji) checked for tokenizer round trip and replace_numbers_in_text == own splice of find_numbers. \
         Non-trivial = at least one occurrence in (a) or (b); distinct = distinct fingerprints of occurrences, sink events \
         and rewritten text (bitmap sketch)."
            .into()
    }

    fn assumptions(&self) -> Vec<String> {
        vec![
            "find_numbers on the same tokens defines 'the reported occurrences' (as the property does)".into(),
            "the order in which the constructors of different occurrences are invoked is not constrained, only the order of tokens within one hand-off".into(),
            "if find_numbers itself panics on the stream, or both text paths panic, the run is skipped (totality is C03, not claimed)".into(),
            "the text clause has no fault or schedule dimension; it is the simulator's fault-free configuration".into(),
            "seeded sampling, not proof".into(),
        ]
    }

    fn real_components(&self) -> Vec<&'static str> {
        vec![
            "text2num::replace_numbers_in_stream (NumTracker::replace, Vec::drain hand-off)",
            "text2num::replace_numbers_in_text, crate-private tokenizer (via verif-hooks re-export), basic_annotate",
            "text2num::find_numbers, all seven interpreters (facade and concrete)",
        ]
    }

    fn stub_components(&self) -> Vec<&'static str> {
        vec!["token type RTok (ids, drop tracking)", "Replace constructor (recording, fault-injecting sink)"]
    }

    fn fault_kinds(&self) -> Vec<&'static str> {
        vec![
            "fault.sink_consume_all",
            "fault.sink_consume_none",
            "fault.sink_first_k",
            "fault.sink_skip_k",
            "fault.sink_every_other",
            "fault.sink_keep_alive_past_call",
            "fault.sink_returns_received_token",
            "fault.sink_makes_nested_calls",
            "fault.interpreter_crash_in_earlier_call",
        ]
    }
}
