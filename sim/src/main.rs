//! t2n-sim — deterministic simulator for text2num-rs (see /verif/DESIGN.md).
//!
//!   t2n-sim run <C02|C10|C12|C14|C15> <quick|thorough> [--runs N] [--budget SECONDS] [--workers N]
//!   t2n-sim replay <file>
//!   t2n-sim hashes <ID> <runs> [--workers N]      (determinism self-test helper)
//!
//! Exit codes: 0 property held on everything explored, 1 violation (a line
//! `VIOLATION property=<id> replay=<path>` is printed), 2 harness error.

mod alloc;
mod c02;
mod c10;
mod c12;
mod c14;
mod c14run;
mod c15;
mod driver;
mod pools;
mod rng;
mod sched;
mod stream;
mod vocab;

#[global_allocator]
static GLOBAL: alloc::SimAlloc = alloc::SimAlloc;

/// Expand `$body` with `$c` bound to the generic check for property `$id`.
macro_rules! dispatch {
    ($id:expr, $c:ident => $body:expr, $else:expr) => {
        match $id {
            "C02" => {
                let $c = &c02::C02;
                $body
            }
            "C10" => {
                let $c = &c10::C10;
                $body
            }
            "C12" => {
                let $c = &c12::C12;
                $body
            }
            "C15" => {
                let $c = &c15::C15;
                $body
            }
            _ => $else,
        }
    };
}

use driver::*;
use serde_json::{json, Value};

fn arg_val(args: &[String], name: &str) -> Option<String> {
    args.iter().position(|a| a == name).and_then(|i| args.get(i + 1).cloned())
}

fn seed_from_env() -> u64 {
    match std::env::var("VERIF_SEED") {
        Ok(s) if !s.trim().is_empty() => match s.trim().parse::<u64>() {
            Ok(v) => v,
            Err(_) => {
                // accept arbitrary strings deterministically
                let mut f = rng::Fp::new();
                f.str(s.trim());
                f.finish() >> 1
            }
        },
        _ => rng::DEFAULT_SEED,
    }
}

struct Tier {
    quick_runs: u64,
    thorough_budget_s: f64,
    thorough_max_runs: u64,
}

fn tier_for(id: &str) -> Tier {
    match id {
        "C14" => Tier { quick_runs: 20_000, thorough_budget_s: 300.0, thorough_max_runs: 1_000_000_000 },
        "C12" => Tier { quick_runs: 1_000_000, thorough_budget_s: 300.0, thorough_max_runs: 2_000_000_000 },
        "C15" => Tier { quick_runs: 2_000_000, thorough_budget_s: 300.0, thorough_max_runs: 2_000_000_000 },
        _ => Tier { quick_runs: 1_500_000, thorough_budget_s: 300.0, thorough_max_runs: 2_000_000_000 },
    }
}

fn batch_cfg(id: &str, tier: &str, args: &[String]) -> BatchCfg {
    let t = tier_for(id);
    let workers = arg_val(args, "--workers")
        .and_then(|s| s.parse().ok())
        .unwrap_or_else(|| std::thread::available_parallelism().map(|n| n.get()).unwrap_or(4).min(16));
    let (mut runs, mut budget, bitmap) = if tier == "thorough" {
        (t.thorough_max_runs, t.thorough_budget_s, 30)
    } else {
        (t.quick_runs, 0.0, 26)
    };
    if let Some(r) = arg_val(args, "--runs").and_then(|s| s.parse().ok()) {
        runs = r;
    }
    if let Some(b) = arg_val(args, "--budget").and_then(|s| s.parse().ok()) {
        budget = b;
    }
    BatchCfg {
        tier: tier.to_string(),
        seed: seed_from_env(),
        runs,
        budget_s: budget,
        workers,
        bitmap_log2: bitmap,
        hashes_only: false,
    }
}

fn run_generic<C: Check>(check: &C, cfg: &BatchCfg, extra: Value) -> i32 {
    println!(
        "VERIF_SEED={} property={} tier={} runs<={} budget_s={} workers={}",
        cfg.seed,
        check.id(),
        cfg.tier,
        cfg.runs,
        cfg.budget_s,
        cfg.workers
    );
    let o = run_batch(check, cfg);
    let ev = evidence_for(check, cfg, &o, extra);
    write_evidence(check.id(), &ev);
    let mut lines = o.out_lines.clone();
    lines.push(format!(
        "property={} tier={} evaluations={} distinct_nontrivial={} events={} wall_s={:.1} violations={}",
        check.id(),
        cfg.tier,
        o.evaluations,
        o.distinct_nontrivial,
        o.events,
        o.wall_s,
        o.violations
    ));
    lines.push(format!("stats: {}", stats_json(&o.stats)));
    flush_and_code(&lines, if o.violations > 0 { 1 } else { 0 })
}

fn main() {
    let args: Vec<String> = std::env::args().collect();
    install_quiet_panic_hook();
    text2num::verif::set_yield_hook(sched::lib_hook);
    let code = match args.get(1).map(|s| s.as_str()) {
        Some("run") => {
            let id = args.get(2).cloned().unwrap_or_default();
            let tier = args.get(3).cloned().unwrap_or_else(|| "quick".into());
            let cfg = batch_cfg(&id, &tier, &args);
            if id == "C14" {
                let (corpus, pristine) = if tier == "thorough" { (30000, 64) } else { (8000, 16) };
                std::process::exit(c14run::run_c14(&cfg, corpus, pristine));
            }
            dispatch!(id.as_str(), c => run_generic(c, &cfg, json!({})), {
                eprintln!("unknown property {id}");
                2
            })
        }
        Some("hashes") => {
            let id = args.get(2).cloned().unwrap_or_default();
            let runs: u64 = args.get(3).and_then(|s| s.parse().ok()).unwrap_or(2000);
            let mut cfg = batch_cfg(&id, "quick", &args);
            cfg.runs = runs;
            cfg.hashes_only = true;
            if id == "C14" {
                let calls = c14::gen_corpus(cfg.seed, 300);
                let expected = c14::reference_results(&calls);
                let chk = c14::C14 { dense: Default::default(), corpus: c14::Corpus { calls, expected } };
                let o = run_batch(&chk, &cfg);
                std::process::exit(flush_and_code(&o.out_lines, 0));
            }
            let o = dispatch!(id.as_str(), c => run_batch(c, &cfg), {
                eprintln!("unknown property {id}");
                std::process::exit(2)
            });
            flush_and_code(&o.out_lines, 0)
        }
        Some("reference") => c14run::reference_main(
            args.get(2).map(|s| s.as_str()).unwrap_or(""),
            args.get(3).map(|s| s.as_str()).unwrap_or(""),
        ),
        Some("bench-langs") => {
            bench_langs();
            0
        }
        Some("dump-corpus") => {
            dump_corpus(seed_from_env(), args.get(2).and_then(|s| s.parse().ok()).unwrap_or(1500));
            0
        }
        Some("reference-call") => c14run::reference_call_main(args.get(2).map(|s| s.as_str()).unwrap_or("")),
        Some("replay") => {
            let path = args.get(2).cloned().unwrap_or_default();
            let doc: Value = match std::fs::read_to_string(&path).ok().and_then(|s| serde_json::from_str(&s).ok()) {
                Some(d) => d,
                None => {
                    eprintln!("harness error: cannot read replay file {path}");
                    std::process::exit(2)
                }
            };
            let p = doc["property"].as_str().unwrap_or("").to_string();
            if p == "C14" {
                std::process::exit(c14run::replay_c14(&doc));
            }
            dispatch!(p.as_str(), c => replay_file(c, &doc), {
                eprintln!("unknown property in replay file: {p}");
                2
            })
        }
        _ => {
            eprintln!("usage: t2n-sim run <ID> <quick|thorough> | replay <file> | hashes <ID> <runs>");
            2
        }
    };
    std::process::exit(code);
}

#[allow(dead_code)]
fn dump_corpus(seed: u64, n: usize) {
    for (i, c) in c14::gen_corpus(seed, n).iter().enumerate() {
        println!("{i} {}", serde_json::to_string(c).unwrap());
    }
}

#[allow(dead_code)]
fn bench_langs() {
    let t = std::time::Instant::now();
    let n = 2000;
    for _ in 0..n {
        let l = pools::Langs::new();
        std::hint::black_box(&l);
    }
    println!("Langs::new: {:.1} us", t.elapsed().as_secs_f64() * 1e6 / n as f64);
}
