//! Orchestration of the C14 layers around the generic batch driver.

use std::io::{Read, Seek, SeekFrom};
use std::os::fd::AsRawFd;
use std::path::PathBuf;

use serde_json::{json, Value};

use crate::c14::*;
use crate::driver::*;
use crate::pools::langs;

/// Process-wide capture of fd 1 and fd 2 into an anonymous (unlinked) file.
pub struct Capture {
    saved1: i32,
    saved2: i32,
    file: std::fs::File,
}

impl Capture {
    pub fn start() -> Capture {
        use std::io::Write;
        let _ = std::io::stdout().flush();
        let dir = replay_dir();
        let path = dir.join(format!(".capture-{}", std::process::id()));
        let file = std::fs::OpenOptions::new().read(true).write(true).create(true).truncate(true).open(&path).expect("capture file");
        let _ = std::fs::remove_file(&path);
        unsafe {
            let saved1 = libc::dup(1);
            let saved2 = libc::dup(2);
            libc::dup2(file.as_raw_fd(), 1);
            libc::dup2(file.as_raw_fd(), 2);
            *SAVED_FDS.lock().unwrap() = Some((saved1, saved2));
            Capture { saved1, saved2, file }
        }
    }
    pub fn bytes(&self) -> u64 {
        self.file.metadata().map(|m| m.len()).unwrap_or(0)
    }
    pub fn stop(mut self) -> Vec<u8> {
        *SAVED_FDS.lock().unwrap() = None;
        unsafe {
            libc::dup2(self.saved1, 1);
            libc::dup2(self.saved2, 2);
            libc::close(self.saved1);
            libc::close(self.saved2);
        }
        let mut v = vec![];
        let _ = self.file.seek(SeekFrom::Start(0));
        let _ = self.file.read_to_end(&mut v);
        v
    }
}

fn tmp_path(name: &str) -> PathBuf {
    replay_dir().join(format!(".tmp-{}-{}", std::process::id(), name))
}

/// `t2n-sim reference <calls.json> <out.json>` — runs in a pristine child process.
pub fn reference_main(input: &str, output: &str) -> i32 {
    let calls: Vec<Call> = match std::fs::read_to_string(input).ok().and_then(|s| serde_json::from_str(&s).ok()) {
        Some(c) => c,
        None => return 2,
    };
    let res = reference_results(&calls);
    match std::fs::write(output, serde_json::to_string(&res).unwrap()) {
        Ok(()) => 0,
        Err(_) => 2,
    }
}

fn child_reference(calls: &[Call], tag: &str) -> Result<Vec<String>, String> {
    let inp = tmp_path(&format!("{tag}-in.json"));
    let outp = tmp_path(&format!("{tag}-out.json"));
    std::fs::write(&inp, serde_json::to_string(calls).unwrap()).map_err(|e| e.to_string())?;
    let exe = std::env::current_exe().map_err(|e| e.to_string())?;
    let o = std::process::Command::new(exe).arg("reference").arg(&inp).arg(&outp).output().map_err(|e| e.to_string())?;
    let r = if o.status.code() == Some(0) {
        std::fs::read_to_string(&outp).ok().and_then(|s| serde_json::from_str::<Vec<String>>(&s).ok()).ok_or_else(|| "cannot read reference output".to_string())
    } else {
        Err(format!("reference child failed: {:?}", o.status.code()))
    };
    let _ = std::fs::remove_file(&inp);
    let _ = std::fs::remove_file(&outp);
    // the reference process itself must be silent too
    if r.is_ok() && (!o.stdout.is_empty() || !o.stderr.is_empty()) {
        return Err(format!("SILENCE:{}", String::from_utf8_lossy(&[o.stdout, o.stderr].concat()).chars().take(300).collect::<String>()));
    }
    r
}

/// `t2n-sim reference-call <call json>`: one call, one process. Prints the JSON-encoded
/// result on stdout and nothing else.
pub fn reference_call_main(call_json: &str) -> i32 {
    let call: Call = match serde_json::from_str(call_json) {
        Ok(c) => c,
        Err(_) => return 2,
    };
    let fresh = crate::pools::Langs::new();
    let r = exec_call(&fresh, &call, false);
    println!("{}", serde_json::to_string(&r).unwrap());
    0
}

/// The clock-skew shim (tools/clockskew.c, built by ./check into sim/target/clockskew.so).
fn clockskew_so() -> Option<PathBuf> {
    let exe = std::env::current_exe().ok()?;
    let p = exe.parent()?.parent()?.join("clockskew.so");
    if p.exists() {
        Some(p)
    } else {
        None
    }
}

fn call_in_child(exe: &std::path::Path, js: &str, loc: &str, tz: &str) -> Result<(String, Option<String>), String> {
    let mut cmd = std::process::Command::new(exe);
    if loc != "C" {
        // the skewed environment also has a clock that jumps 5 s ahead at every reading
        if let Some(so) = clockskew_so() {
            cmd.env("LD_PRELOAD", so).env("T2N_CLOCK_STEP_MS", "5000");
        }
        // ... and every environment variable the tree under test reads by name is set
        for name in crate::vocab::ENV_VARS_READ {
            cmd.env(name, "1");
        }
    } else {
        for name in crate::vocab::ENV_VARS_READ {
            cmd.env_remove(name);
        }
    }
    match cmd
        .arg("reference-call")
        .arg(js)
        .env("LANG", loc)
        .env("LC_ALL", loc)
        .env("LC_NUMERIC", loc)
        .env("LANGUAGE", loc)
        .env("TZ", tz)
        .output()
    {
        Ok(o) if o.status.code() == Some(0) => {
            let so = String::from_utf8_lossy(&o.stdout).to_string();
            let mut lines = so.lines();
            match lines.next().and_then(|l| serde_json::from_str::<String>(l).ok()) {
                Some(res) => {
                    let stray_out: String = lines.collect::<Vec<_>>().join("\n");
                    let stray = format!("{}{}", stray_out, String::from_utf8_lossy(&o.stderr));
                    Ok((res, if stray.is_empty() { None } else { Some(stray) }))
                }
                None => Ok(("?".to_string(), Some(format!("{}{}", so, String::from_utf8_lossy(&o.stderr))))),
            }
        }
        Ok(o) => Err(format!("reference-call child exit {:?}", o.status.code())),
        Err(e) => Err(e.to_string()),
    }
}

const SKEW_LOCALES: [&str; 4] = ["fr_CH.UTF-8", "de_DE.UTF-8", "tr_TR.UTF-8", "fr_FR.UTF-8"];
/// indexed like pools::LANG_CODES (de en es fr it nl pt)
const LANG_LOCALES: [&str; 7] = ["de_CH.UTF-8", "en_GB.UTF-8", "es_MX.UTF-8", "fr_CH.UTF-8", "it_CH.UTF-8", "nl_BE.UTF-8", "pt_BR.UTF-8"];

/// The pristine reference table: every call in its own fresh process (16 at a time).
/// Returns the results and, per call, any bytes the child wrote besides its one result line.
fn pristine_table(calls: &[Call]) -> Result<(Vec<String>, Vec<Option<String>>), String> {
    let exe = std::env::current_exe().map_err(|e| e.to_string())?;
    let n = calls.len();
    let next = std::sync::atomic::AtomicUsize::new(0);
    let results: Vec<std::sync::Mutex<Option<Result<(String, Option<String>), String>>>> = (0..n).map(|_| std::sync::Mutex::new(None)).collect();
    std::thread::scope(|sc| {
        for _ in 0..16 {
            sc.spawn(|| loop {
                let i = next.fetch_add(1, std::sync::atomic::Ordering::Relaxed);
                if i >= n {
                    break;
                }
                let js = serde_json::to_string(&calls[i]).unwrap();
                // environment skew: every call runs in TWO pristine processes under different locales and
                // time zones; a pure function of its arguments gives the same answer in both
                // the locale most likely to matter is one of the call's own language
                let loc = if i % 3 == 0 { SKEW_LOCALES[i % 4] } else { LANG_LOCALES[calls[i].lang % 7] };
                let r = match (call_in_child(&exe, &js, loc, "Asia/Tokyo"), call_in_child(&exe, &js, "C", "UTC")) {
                    (Ok((ra, sa)), Ok((rb, sb))) => {
                        if ra != rb || sa != sb {
                            // result or stray output differs between the two environments
                            let show = |r: &str, s: &Option<String>| match s {
                                Some(x) => format!("{r} + output {:?}", x.chars().take(120).collect::<String>()),
                                None => r.to_string(),
                            };
                            Ok((ra.clone(), Some(format!("ENVDIFF\u{1}{loc}\u{1}{}\u{1}{}", show(&ra, &sa), show(&rb, &sb)))))
                        } else {
                            Ok((ra, sa))
                        }
                    }
                    (Err(e), _) | (_, Err(e)) => Err(e),
                };
                *results[i].lock().unwrap() = Some(r);
            });
        }
    });
    let mut table = Vec::with_capacity(n);
    let mut stray = Vec::with_capacity(n);
    for m in results {
        match m.into_inner().unwrap() {
            Some(Ok((r, s))) => {
                table.push(r);
                stray.push(s);
            }
            Some(Err(e)) => return Err(e),
            None => return Err("missing reference result".into()),
        }
    }
    Ok((table, stray))
}

/// Soak history: a handful of calls, each repeated tens of thousands of times in a row, on ONE thread and
/// ONE set of interpreters (counters wrap, epochs overflow, caches fill). Returns the first
/// (iteration, call index, got) that disagrees with the pristine result.
pub fn soak(calls: &[Call], expected: &[String], repeats: usize) -> Option<(usize, usize, String)> {
    soak_then_probe(calls, expected, repeats, &[], &[]).map(|(r, i, g, _)| (r, i, g))
}

/// A call with a very long text is a phase of its own: it is made once, not `repeats` times.
fn is_flood(c: &Call) -> bool {
    matches!(&c.op, Op::Rewrite { text, .. } | Op::T2d { text } if text.len() > 10_000)
}

/// `n` distinct pronounceable pseudo-words (three consonant-vowel syllables, numbered from `from`):
/// whatever the library remembers per distinct word (memo, filter, interning table) is filled up.
pub fn flood_text(from: usize, n: usize) -> String {
    const C: [&str; 20] = ["b", "c", "d", "f", "g", "h", "j", "k", "l", "m", "n", "p", "r", "s", "t", "v", "w", "x", "z", "q"];
    const V: [&str; 5] = ["a", "e", "i", "o", "u"];
    let mut out = String::with_capacity(n * 7);
    for i in from..from + n {
        let mut k = i;
        for _ in 0..3 {
            let s = k % 100;
            k /= 100;
            out.push_str(C[s / 5]);
            out.push_str(V[s % 5]);
        }
        out.push(if i % 97 == 0 { '.' } else { ' ' });
    }
    out
}

/// number of leading probe calls that are also made between the phases of the soak
const INTER: usize = 40;

/// The soak, followed on the same thread and interpreters by `probe` calls once each (state built up
/// by a long monotone history must not change what other calls give). The last field tells whether the
/// mismatch was found in the probe part.
pub fn soak_then_probe(
    calls: &[Call],
    expected: &[String],
    repeats: usize,
    probe: &[Call],
    probe_expected: &[String],
) -> Option<(usize, usize, String, bool)> {
    std::thread::scope(|sc| {
        sc.spawn(|| {
            let ls = crate::pools::Langs::new();
            // the first `INTER` probe calls are also made after every phase (whatever a long monotone
            // history of one call leaves behind must not change what the next, different call gives)
            let inter = probe.len().min(INTER);
            for (i, c) in calls.iter().enumerate() {
                // a flood is made twice: the second pass re-asks every word the first one made the library remember
                let reps = if is_flood(c) { repeats.min(2) } else { repeats };
                for r in 0..reps {
                    let got = exec_call(&ls, c, false);
                    if got != expected[i] {
                        return Some((r, i, got, false));
                    }
                }
                if repeats > 0 {
                    for (k, pc) in probe[..inter].iter().enumerate() {
                        let got = exec_call(&ls, pc, false);
                        if got != probe_expected[k] {
                            // report as a probe mismatch after phase i
                            return Some((i + 1, k, got, true));
                        }
                    }
                }
            }
            for (i, c) in probe.iter().enumerate() {
                let got = exec_call(&ls, c, false);
                if got != probe_expected[i] {
                    return Some((0, i, got, true));
                }
            }
            None
        })
        .join()
        .unwrap_or(None)
    })
}

#[allow(dead_code)]
fn soak_old(calls: &[Call], expected: &[String], repeats: usize) -> Option<(usize, usize, String)> {
    std::thread::scope(|sc| {
        sc.spawn(|| {
            let ls = crate::pools::Langs::new();
            // phases: each call is repeated `repeats` times in a row, so that whatever the library
            // counts (calls, words, tokens), every value of the count up to `repeats` is met by every
            // one of the soak calls
            for (i, c) in calls.iter().enumerate() {
                for r in 0..repeats {
                    let got = exec_call(&ls, c, false);
                    if got != expected[i] {
                        return Some((r, i, got));
                    }
                }
            }
            None
        })
        .join()
        .unwrap_or(None)
    })
}

fn soak_calls(corpus: &[Call], expected: &[String]) -> (Vec<Call>, Vec<String>) {
    // one short, crash-free call per (language, kind of operation) met first in the corpus, capped
    let mut seen = std::collections::BTreeSet::new();
    let mut c = vec![];
    let mut e = vec![];
    for (i, call) in corpus.iter().enumerate() {
        if call.crash_at != 0 || call.reenter != 0 {
            continue;
        }
        let (kind, size) = match &call.op {
            Op::T2d { text } => (0, text.len()),
            Op::Rewrite { text, .. } => (1, text.len()),
            Op::Find { toks, .. } => (2, toks.len() * 8),
            Op::FindIter { toks, .. } => (3, toks.len() * 8),
            Op::RewriteStream { toks, .. } => (4, toks.len() * 8),
            Op::Raw { words, .. } => (5, words.len() * 8),
            Op::Annotate { text } => (6, text.len()),
            Op::AnnotateCustom { words } => (7, words.len() * 8),
            Op::Lookup { text, .. } => (8, text.len()),
        };
        if size > 120 || !seen.insert((call.lang, kind)) {
            continue;
        }
        c.push(call.clone());
        e.push(expected[i].clone());
        if c.len() >= 40 {
            break;
        }
    }
    (c, e)
}

/// H7: calls made from the destructor of a caller thread-local while the calling thread is being torn
/// down (the library's own thread-locals, registered later, are already gone) give what they give normally.
pub fn teardown_results(calls: &[Call]) -> Vec<String> {
    use std::sync::mpsc;
    struct Guard {
        calls: Vec<Call>,
        tx: mpsc::Sender<Vec<String>>,
    }
    impl Drop for Guard {
        fn drop(&mut self) {
            let ls = crate::pools::Langs::new();
            let out: Vec<String> = self.calls.iter().map(|c| exec_call(&ls, c, false)).collect();
            let _ = self.tx.send(out);
        }
    }
    thread_local! {
        static GUARD: std::cell::RefCell<Option<Guard>> = const { std::cell::RefCell::new(None) };
    }
    let (tx, rx) = mpsc::channel();
    let owned: Vec<Call> = calls.to_vec();
    let warm: Vec<Call> = calls.to_vec();
    let h = std::thread::spawn(move || {
        // 1. the caller's thread-local first ...
        GUARD.with(|g| *g.borrow_mut() = Some(Guard { calls: owned, tx }));
        // 2. ... then the library is used normally on this thread (whatever thread-locals it has are
        //    registered after the caller's and destroyed before it)
        let ls = crate::pools::Langs::new();
        for c in warm.iter().take(50) {
            let _ = exec_call(&ls, c, false);
        }
        // 3. thread exit: library thread-locals go first, then GUARD's destructor makes the calls
    });
    let _ = h.join();
    rx.recv_timeout(std::time::Duration::from_secs(60)).unwrap_or_default()
}

fn single_call_case(call: &Call, expected: &str) -> Case {
    Case { calls: vec![call.clone()], expected: vec![expected.to_string()], threads: vec![vec![0]], policy: 0, sched_seed: 0, trace: None }
}

fn report_violation(lines: &mut Vec<String>, seed: u64, tag: u64, case: &Case, oracle: &str, detail: &str) -> bool {
    let v = Violation { oracle: oracle.to_string(), detail: detail.to_string() };
    let dummy = C14 { dense: Default::default(), corpus: Corpus { calls: vec![], expected: vec![] } };
    let path = write_replay(&dummy, seed, tag, case, &v, "found outside the schedule batch (single call)");
    match confirm_in_child(&path, oracle) {
        Ok(()) => {
            lines.push(format!("violation detail: oracle={oracle} {detail}"));
            lines.push(format!("VIOLATION property=C14 replay={}", path.display()));
            true
        }
        Err(e) => {
            lines.push(format!("HARNESS-ERROR property=C14 replay {} did not reproduce in a fresh process: {e}", path.display()));
            false
        }
    }
}

/// C14-specific replay: the case is executed under fd capture, so that both result
/// mismatches and stray output reproduce.
pub fn replay_c14(doc: &Value) -> i32 {
    let case: Case = match serde_json::from_value(doc["case"].clone()) {
        Ok(c) => c,
        Err(e) => {
            eprintln!("harness error: cannot parse case: {e}");
            return 2;
        }
    };
    if doc.get("teardown").and_then(|v| v.as_bool()).unwrap_or(false) {
        let got = teardown_results(&case.calls);
        return if got.len() == case.calls.len() && got[0] != case.expected[0] {
            flush_and_code(
                &[
                    format!("REPLAY property=C14 oracle=H7-thread-teardown got {:?}, normally {:?}", got[0], case.expected[0]),
                    "REPLAY-RESULT violation-reproduced oracle=H7-thread-teardown".to_string(),
                ],
                1,
            )
        } else {
            flush_and_code(&["REPLAY-RESULT no-violation property=C14".to_string()], 0)
        };
    }
    if let Some(sk) = doc.get("soak") {
        let c: Vec<Call> = serde_json::from_value(sk["calls"].clone()).unwrap_or_default();
        let e: Vec<String> = serde_json::from_value(sk["expected"].clone()).unwrap_or_default();
        let n = sk["repeats"].as_u64().unwrap_or(0) as usize;
        let pc: Vec<Call> = serde_json::from_value(sk["probe"].clone()).unwrap_or_default();
        let pe: Vec<String> = serde_json::from_value(sk["probe_expected"].clone()).unwrap_or_default();
        return match soak_then_probe(&c, &e, n, &pc, &pe).map(|(r, i, g, _)| (r, i, g)) {
            Some((r, i, got)) => flush_and_code(
                &[
                    format!("REPLAY property=C14 oracle=H1-history-independence repetition {r} call {i}: got {got:?}"),
                    "REPLAY-RESULT violation-reproduced oracle=H1-history-independence".to_string(),
                ],
                1,
            ),
            None => flush_and_code(&["REPLAY-RESULT no-violation property=C14".to_string()], 0),
        };
    }
    if let Some(envs) = doc.get("envs").and_then(|e| e.as_array()) {
        // environment-independence replay: the single call in two pristine processes
        let exe = match std::env::current_exe() {
            Ok(e) => e,
            Err(_) => return 2,
        };
        let js = serde_json::to_string(&case.calls[0]).unwrap_or_default();
        let a = call_in_child(&exe, &js, envs.first().and_then(|v| v.as_str()).unwrap_or("C"), "Asia/Tokyo");
        let b = call_in_child(&exe, &js, envs.get(1).and_then(|v| v.as_str()).unwrap_or("C"), "UTC");
        return match (a, b) {
            (Ok((ra, sa)), Ok((rb, sb))) if ra != rb || sa != sb => {
                flush_and_code(&[format!("REPLAY property=C14 oracle=H4-environment-independence {ra:?} vs {rb:?}"), "REPLAY-RESULT violation-reproduced oracle=H4-environment-independence".to_string()], 1)
            }
            (Ok(_), Ok(_)) => flush_and_code(&["REPLAY-RESULT no-violation property=C14".to_string()], 0),
            _ => 2,
        };
    }
    let check = C14 { dense: Default::default(), corpus: Corpus { calls: vec![], expected: vec![] } };
    let cap = Capture::start();
    let mut st = Stats::default();
    let r = guarded(|| check.execute(&case, &mut st));
    let bytes = cap.stop();
    let mut out = vec![];
    let code = match r {
        Ok(RunResult { violation: Some(v), .. }) => {
            out.push(format!("REPLAY property=C14 oracle={} detail={}", v.oracle, v.detail));
            out.push(format!("REPLAY-RESULT violation-reproduced oracle={}", v.oracle));
            1
        }
        Ok(_) if !bytes.is_empty() => {
            out.push(format!("REPLAY property=C14 oracle=E1-silence captured {} bytes: {:?}", bytes.len(), String::from_utf8_lossy(&bytes).chars().take(200).collect::<String>()));
            out.push("REPLAY-RESULT violation-reproduced oracle=E1-silence".to_string());
            1
        }
        Ok(_) => {
            out.push("REPLAY-RESULT no-violation property=C14".to_string());
            0
        }
        Err(p) => {
            out.push(format!("harness error during replay: {p}"));
            2
        }
    };
    flush_and_code(&out, code)
}

pub fn run_c14(cfg: &BatchCfg, corpus_size: usize, pristine_sample: usize) -> i32 {
    let start = std::time::Instant::now();
    println!(
        "VERIF_SEED={} property=C14 tier={} runs<={} budget_s={} workers={} corpus={}",
        cfg.seed, cfg.tier, cfg.runs, cfg.budget_s, cfg.workers, corpus_size
    );
    let mut lines: Vec<String> = vec![];
    let mut violations = 0u64;
    let fail = |lines: &Vec<String>, code: i32| -> i32 { flush_and_code(lines, code) };

    // corpus and reference table: every call in its own pristine process
    let calls = gen_corpus(cfg.seed, corpus_size);
    let t_table = std::time::Instant::now();
    let (expected, stray) = match pristine_table(&calls) {
        Ok(x) => x,
        Err(e) => {
            lines.push(format!("HARNESS-ERROR property=C14 {e}"));
            return fail(&lines, 2);
        }
    };
    if let Some(i) = stray.iter().position(|s| s.as_deref().map(|x| x.starts_with("ENVDIFF")).unwrap_or(false)) {
        let parts: Vec<&str> = stray[i].as_deref().unwrap().split('\u{1}').collect();
        let detail = format!(
            "call {} gives {:?} in a pristine process under LANG=LC_ALL={} TZ=Asia/Tokyo, a clock that jumps ahead and every environment variable the library reads by name set to 1, but {:?} under LANG=LC_ALL=C TZ=UTC with those variables unset: the result or the output depends on the process environment, not only on the arguments",
            serde_json::to_string(&calls[i]).unwrap_or_default(),
            parts.get(2).unwrap_or(&""),
            parts.get(1).unwrap_or(&""),
            parts.get(3).unwrap_or(&"")
        );
        let path = replay_dir().join(format!("C14-{}-env-{i}.json", cfg.seed));
        let doc = json!({"property":"C14","oracle":"H4-environment-independence","detail":detail,
            "envs":[parts.get(1).unwrap_or(&"C"), "C"], "case": single_call_case(&calls[i], &expected[i])});
        let _ = std::fs::write(&path, serde_json::to_string_pretty(&doc).unwrap());
        match confirm_in_child(&path, "H4-environment-independence") {
            Ok(()) => {
                lines.push(format!("violation detail: oracle=H4-environment-independence {detail}"));
                lines.push(format!("VIOLATION property=C14 replay={}", path.display()));
                return fail(&lines, 1);
            }
            Err(e) => {
                lines.push(format!("HARNESS-ERROR property=C14 environment dependence did not reproduce: {e}"));
                return fail(&lines, 2);
            }
        }
    }
    if let Some(i) = stray.iter().position(|s| s.is_some()) {
        let detail = format!(
            "call {} alone in a pristine process wrote to the standard streams: {:?}",
            serde_json::to_string(&calls[i]).unwrap_or_default(),
            stray[i].as_deref().unwrap_or("").chars().take(200).collect::<String>()
        );
        let mut violations = 0;
        if report_violation(&mut lines, cfg.seed, 900_000 + i as u64, &single_call_case(&calls[i], &expected[i]), "E1-silence", &detail) {
            violations = 1;
        }
        return fail(&lines, if violations > 0 { 1 } else { 2 });
    }
    if let Some(i) = expected.iter().position(|e| e.starts_with(PURITY_MARK)) {
        let detail = format!("call {} alone in a pristine process: {}", serde_json::to_string(&calls[i]).unwrap_or_default(), expected[i]);
        let ok = report_violation(&mut lines, cfg.seed, 600_000 + i as u64, &single_call_case(&calls[i], &expected[i]), "H8-method-purity", &detail);
        return fail(&lines, if ok { 1 } else { 2 });
    }
    if let Some(i) = expected.iter().position(|e| e.starts_with(REENTRANT_MARK)) {
        let detail = format!(
            "call {}: a library call made from inside a caller-supplied interpreter callback (same thread, nested) panicked or gave a different result than the same call on its own",
            serde_json::to_string(&calls[i]).unwrap_or_default()
        );
        let ok = report_violation(&mut lines, cfg.seed, 500_000 + i as u64, &single_call_case(&calls[i], &expected[i]), "H5-reentrancy", &detail);
        return fail(&lines, if ok { 1 } else { 2 });
    }
    lines.push(format!("timing: pristine table {:.1}s", t_table.elapsed().as_secs_f64()));
    let t_phase = std::time::Instant::now();
    if let Some(i) = expected.iter().position(|e| e.starts_with(UNWIND_MARK)) {
        let detail = format!("call {}: {}", serde_json::to_string(&calls[i]).unwrap_or_default(), expected[i]);
        let ok = report_violation(&mut lines, cfg.seed, 400_000 + i as u64, &single_call_case(&calls[i], &expected[i]), "H6-unwinding", &detail);
        return fail(&lines, if ok { 1 } else { 2 });
    }
    // second history: all calls in ONE other process (fresh interpreters and a fresh thread per
    // call, reverse order); it must agree with the pristine table
    match child_reference(&calls, "ref") {
        Ok(one_process) => {
            if let Some(i) = (0..calls.len()).find(|&i| one_process[i] != expected[i]) {
                // the history that produced it: calls i.. in reverse order; hand the forward pass a case
                let detail = format!(
                    "call {} gives {:?} alone in a pristine process but {:?} in a process that had executed the calls after it in the corpus (reverse order) before",
                    serde_json::to_string(&calls[i]).unwrap_or_default(),
                    expected[i],
                    one_process[i]
                );
                let hi = calls.len() - 1;
                let idx: Vec<usize> = (i..=hi).rev().collect();
                let case = Case {
                    calls: calls[i..=hi].to_vec(),
                    expected: expected[i..=hi].to_vec(),
                    threads: vec![idx.iter().map(|k| k - i).collect()],
                    policy: 0,
                    sched_seed: 0,
                    trace: None,
                };
                let check = C14 { dense: Default::default(), corpus: Corpus { calls: vec![], expected: vec![] } };
                let v0 = Violation { oracle: "H1-history-independence".into(), detail: detail.clone() };
                match minimise_isolated(&check, &case, "H1-history-independence", 400) {
                    Some((c2, v2, n2)) => {
                        let path = write_replay(&check, cfg.seed, 600_000 + i as u64, &c2, &v2, &format!("minimised with {n2} process-isolated re-executions from the reverse-order reference history"));
                        lines.push(format!("violation detail: oracle={} {}", v2.oracle, v2.detail));
                        lines.push(format!("VIOLATION property=C14 replay={}", path.display()));
                    }
                    None => {
                        let p = replay_dir().join(format!("C14-{}-reverse-history-{i}.json", cfg.seed));
                        let _ = std::fs::write(&p, serde_json::to_string_pretty(&json!({"property":"C14","oracle":v0.oracle,"detail":detail,"case":case})).unwrap());
                        lines.push(format!("violation detail: oracle={} {}", v0.oracle, detail));
                        lines.push(format!("VIOLATION property=C14 replay={}", p.display()));
                    }
                }
                return fail(&lines, 1);
            }
        }
        Err(e) if e.starts_with("SILENCE:") => {
            lines.push(format!("note: the one-process reference child wrote to its standard streams: {}", &e[8..]));
        }
        Err(e) => {
            lines.push(format!("HARNESS-ERROR property=C14 {e}"));
            return fail(&lines, 2);
        }
    }

    lines.push(format!("timing: one-process reverse history {:.1}s", t_phase.elapsed().as_secs_f64()));
    let t_phase = std::time::Instant::now();
    // process-level side effects other than output: environment variables and live threads
    let env_before: std::collections::BTreeMap<String, String> = std::env::vars_os()
        .map(|(k, v)| (k.to_string_lossy().into_owned(), v.to_string_lossy().into_owned()))
        .collect();
    let threads_now = || -> usize {
        std::fs::read_to_string("/proc/self/status")
            .ok()
            .and_then(|s| s.lines().find(|l| l.starts_with("Threads:")).and_then(|l| l.split_whitespace().nth(1).and_then(|n| n.parse().ok())))
            .unwrap_or(0)
    };
    let threads_before = threads_now();

    // ---- everything from here on runs with fd 1 / fd 2 captured
    let cap = Capture::start();

    // (e) silence scan, one call at a time on one set of long-lived interpreters, on a thread
    // of its own (the main thread's thread-locals stay untouched)
    let mut silence_hit: Option<(usize, u64)> = None;
    std::thread::scope(|sc| {
        sc.spawn(|| {
            let ls = langs();
            let mut last = cap.bytes();
            for (i, c) in calls.iter().enumerate() {
                let _ = exec_call(ls, c, false);
                let now = cap.bytes();
                if now > last {
                    silence_hit = Some((i, now - last));
                    break;
                }
                last = now;
            }
        });
    });
    // (b') the whole corpus as ONE forward history on one simulated thread and one set of
    // interpreters, through the same executor as every other run (so it replays from its case)
    let full_history = Case {
        calls: calls.clone(),
        expected: expected.clone(),
        threads: vec![(0..calls.len()).collect()],
        policy: 0,
        sched_seed: 0,
        trace: None,
    };
    let mut direct_mismatch: Option<Violation> = None;
    if silence_hit.is_none() {
        let probe = C14 { dense: Default::default(), corpus: Corpus { calls: vec![], expected: vec![] } };
        let mut st = Stats::default();
        direct_mismatch = probe.execute(&full_history, &mut st).violation;
    }

    lines.push(format!("timing: silence scan + forward history {:.1}s", t_phase.elapsed().as_secs_f64()));
    let t_phase = std::time::Instant::now();
    // (b3) teardown: a sample of crash-free calls made from a thread-local destructor at thread exit
    {
        let idx: Vec<usize> = (0..calls.len()).filter(|&i| calls[i].crash_at == 0 && calls[i].reenter == 0 && !calls[i].during_unwind).take(1200).collect();
        let sample: Vec<Call> = idx.iter().map(|&i| calls[i].clone()).collect();
        let got = teardown_results(&sample);
        if got.len() == sample.len() {
            if let Some(k) = (0..got.len()).find(|&k| got[k] != expected[idx[k]]) {
                let detail = format!(
                    "call {} made from the destructor of a caller thread-local during thread teardown gives {:?}, normally {:?}",
                    serde_json::to_string(&sample[k]).unwrap_or_default(),
                    got[k],
                    expected[idx[k]]
                );
                let path = replay_dir().join(format!("C14-{}-teardown-{}.json", cfg.seed, idx[k]));
                let doc = json!({"property":"C14","oracle":"H7-thread-teardown","detail":detail,
                    "teardown": true, "case": single_call_case(&sample[k], &expected[idx[k]])});
                let _ = std::fs::write(&path, serde_json::to_string_pretty(&doc).unwrap());
                let _ = cap.stop();
                return match confirm_in_child(&path, "H7-thread-teardown") {
                    Ok(()) => {
                        lines.push(format!("violation detail: oracle=H7-thread-teardown {detail}"));
                        lines.push(format!("VIOLATION property=C14 replay={}", path.display()));
                        fail(&lines, 1)
                    }
                    Err(e) => {
                        lines.push(format!("HARNESS-ERROR property=C14 teardown mismatch did not reproduce in a fresh process: {e}"));
                        fail(&lines, 2)
                    }
                };
            }
        } else {
            lines.push(format!("note: teardown layer returned {} of {} results (skipped)", got.len(), sample.len()));
        }
    }
    // (b'') soak: up to 40 short calls, 66 000 rounds each, one thread, one interpreter set
    let (mut soak_c, mut soak_e) = soak_calls(&calls, &expected);
    // plus the ambiguity-annotation paths (English "o", French "neuf"), which keep per-call scratch state
    for (lang, text) in [(1usize, "o nine sixty o six twelve twenty-one and o"), (3, "le logement neuf, un neuf virgule neuf et le vingt neuf")] {
        for concrete in [false, true] {
            let c = Call { lang, concrete, op: Op::Rewrite { text: text.to_string(), thr: "0".into() }, crash_at: 0, reenter: 0, during_unwind: false };
            if let Ok(exe) = std::env::current_exe() {
                if let Ok((r, None)) = call_in_child(&exe, &serde_json::to_string(&c).unwrap_or_default(), "C", "UTC") {
                    soak_c.push(c);
                    soak_e.push(r);
                }
            }
        }
    }
    // plus one flood per language: 12 000 distinct ordinary words in one call (made once), so that
    // anything the library remembers per distinct word is saturated before the probes that follow
    // (facade and concrete interpreter are different objects: both are flooded)
    for lang in 0..7usize {
        let text = flood_text((cfg.seed as usize % 400_000) + lang * 12_000, 12_000);
        let c = Call { lang, concrete: false, op: Op::Rewrite { text, thr: "0".into() }, crash_at: 0, reenter: 0, during_unwind: false };
        if let Ok(exe) = std::env::current_exe() {
            if let Ok((r, None)) = call_in_child(&exe, &serde_json::to_string(&c).unwrap_or_default(), "C", "UTC") {
                soak_c.push(c.clone());
                soak_e.push(r.clone());
                soak_c.push(Call { concrete: true, ..c });
                soak_e.push(r);
            }
        }
    }
    // ... and one flood of several hundred distinct valid compounds per splitter language (hundreds x units x
    // tens), so that a memo of decoded compounds overflows and is then asked again
    for lang in [0usize, 4, 5] {
        let pool = &crate::pools::POOLS[lang];
        let mut text = String::new();
        for h in pool.units.iter().skip(1).take(8) {
            for u in pool.units.iter().take(9) {
                for t in pool.tens.iter().take(8) {
                    text.push_str(&match pool.code {
                        "de" => format!("{h}hundert{u}und{t} "),
                        "nl" => format!("{h}honderd{u}en{t} "),
                        _ => format!("{h}cento{t}{u} "),
                    });
                }
            }
            text.push_str(". ");
        }
        let c = Call { lang, concrete: false, op: Op::Rewrite { text, thr: "0".into() }, crash_at: 0, reenter: 0, during_unwind: false };
        if let Ok(exe) = std::env::current_exe() {
            if let Ok((r, None)) = call_in_child(&exe, &serde_json::to_string(&c).unwrap_or_default(), "C", "UTC") {
                soak_c.push(c.clone());
                soak_e.push(r.clone());
                soak_c.push(Call { concrete: true, ..c });
                soak_e.push(r);
            }
        }
    }
    let flood_calls = soak_c.iter().filter(|c| is_flood(c)).count();
    let soak_repeats = 66_000usize;
    let mut soak_hit: Option<(usize, usize, String)> = None;
    let mut soak_probe: Option<(Call, String)> = None;
    // the probe calls that had been made (per phase) when the mismatch was seen: the fallback replay
    let mut soak_probe_full: Option<(Vec<Call>, Vec<String>)> = None;
    let mut soak_phases: usize = usize::MAX;
    if silence_hit.is_none() && direct_mismatch.is_none() {
        // probe afterwards with the systematic families (first part of the corpus), crash-free calls only
        let probe_idx: Vec<usize> = (0..calls.len().min(1500)).filter(|&i| calls[i].crash_at == 0).collect();
        let mut probe_c: Vec<Call> = vec![];
        let mut probe_e: Vec<String> = vec![];
        // first: compounds, composites and hundreds of every language as single-word calls (made between
        // the phases too); their pristine results come from fresh processes
        if let Ok(exe) = std::env::current_exe() {
            for lang in 0..7usize {
                let pool = &crate::pools::POOLS[lang];
                let words: Vec<&str> = pool.composite.iter().take(4).chain(pool.hundreds.iter().take(2)).chain(pool.ordinals.iter().take(1)).copied().collect();
                for w in words {
                    if probe_c.len() >= INTER {
                        break;
                    }
                    let c = Call { lang, concrete: lang % 2 == 0, op: Op::T2d { text: w.to_string() }, crash_at: 0, reenter: 0, during_unwind: false };
                    if let Ok((r, None)) = call_in_child(&exe, &serde_json::to_string(&c).unwrap_or_default(), "C", "UTC") {
                        probe_c.push(c);
                        probe_e.push(r);
                    }
                }
            }
        }
        probe_c.extend(probe_idx.iter().map(|&i| calls[i].clone()));
        probe_e.extend(probe_idx.iter().map(|&i| expected[i].clone()));
        if let Some((r, i, got, in_probe)) = soak_then_probe(&soak_c, &soak_e, soak_repeats, &probe_c, &probe_e) {
            if in_probe {
                soak_probe = Some((probe_c[i].clone(), probe_e[i].clone()));
                let upto = if r > 0 { probe_c.len().min(INTER) } else { i + 1 };
                soak_probe_full = Some((probe_c[..upto].to_vec(), probe_e[..upto].to_vec()));
                if r > 0 {
                    // found between phases: only the first r phases are needed to reproduce it
                    soak_phases = r;
                }
            }
            soak_hit = Some((r, i, got));
        }
    }
    lines.push(format!("timing: soak {:.1}s", t_phase.elapsed().as_secs_f64()));
    let check = C14 { dense: Default::default(), corpus: Corpus { calls: calls.clone(), expected: expected.clone() } };
    let outcome = if soak_hit.is_some() { None } else if silence_hit.is_none() && direct_mismatch.is_none() { Some(run_batch(&check, cfg)) } else { None };
    let captured = cap.stop();
    // ---- capture ends
    let env_after: std::collections::BTreeMap<String, String> = std::env::vars_os()
        .map(|(k, v)| (k.to_string_lossy().into_owned(), v.to_string_lossy().into_owned()))
        .collect();
    // give detached threads of the code under test no excuse: all harness threads are joined by now
    let mut threads_after = threads_now();
    for _ in 0..20 {
        if threads_after <= threads_before {
            break;
        }
        std::thread::sleep(std::time::Duration::from_millis(50));
        threads_after = threads_now();
    }
    // the process-wide panic hook must still be the one installed before the calls
    *LAST_PANIC_PROBE.lock().unwrap() = String::new();
    let _ = std::panic::catch_unwind(|| panic!("t2n-hook-probe"));
    let hook_ok = LAST_PANIC_PROBE.lock().unwrap().contains("t2n-hook-probe");
    if !hook_ok {
        let detail = "library calls replaced the process-wide panic hook (a panic raised after the batch no longer reaches the hook that was installed before it)".to_string();
        let p = replay_dir().join(format!("C14-{}-panic-hook.txt", cfg.seed));
        let _ = std::fs::write(&p, &detail);
        lines.push(format!("violation detail: oracle=E2-process-side-effects {detail}"));
        lines.push(format!("VIOLATION property=C14 replay={}", p.display()));
        return fail(&lines, 1);
    }
    if env_after != env_before || (threads_before > 0 && threads_after > threads_before) {
        let changed: Vec<String> = env_after
            .iter()
            .filter(|(k, v)| env_before.get(*k) != Some(*v))
            .map(|(k, v)| format!("{k}={v}"))
            .chain(env_before.keys().filter(|k| !env_after.contains_key(*k)).map(|k| format!("{k} removed")))
            .collect();
        let detail = format!(
            "library calls left a process-level side effect behind: environment changes {:?}; live threads before {} after {}",
            changed, threads_before, threads_after
        );
        let p = replay_dir().join(format!("C14-{}-process-side-effect.txt", cfg.seed));
        let _ = std::fs::write(&p, &detail);
        lines.push(format!("violation detail: oracle=E2-process-side-effects {detail}"));
        lines.push(format!("VIOLATION property=C14 replay={}", p.display()));
        return fail(&lines, 1);
    }

    if let Some((i, n)) = silence_hit {
        let detail = format!(
            "call {} wrote {n} bytes to the process's standard streams: {:?}",
            serde_json::to_string(&calls[i]).unwrap_or_default(),
            String::from_utf8_lossy(&captured).chars().take(200).collect::<String>()
        );
        if report_violation(&mut lines, cfg.seed, 900_000 + i as u64, &single_call_case(&calls[i], &expected[i]), "E1-silence", &detail) {
            violations += 1;
        } else {
            return fail(&lines, 2);
        }
    } else if let Some(v0) = direct_mismatch {
        match minimise_and_confirm(&check, cfg.seed, 800_000, &full_history, &v0) {
            Ok((path, _c, v)) => {
                lines.push(format!("violation detail: oracle={} {}", v.oracle, v.detail));
                lines.push(format!("VIOLATION property=C14 replay={}", path.display()));
                violations += 1;
            }
            Err(e) => {
                lines.push(format!("HARNESS-ERROR property=C14 forward-history mismatch did not reproduce in a fresh process: {e}"));
                return fail(&lines, 2);
            }
        }
    }

    if let Some((r, i, got)) = &soak_hit {
        let hi = soak_repeats;
        if let Some((pc, pe)) = &soak_probe {
            let detail = format!(
                "after the soak ({} calls: short ones repeated {} times in a row each, floods of distinct words / compounds twice each, on one thread and one set of interpreters), call {} gives {:?}, alone in a pristine process it gives {:?}",
                soak_c.len(),
                hi,
                serde_json::to_string(pc).unwrap_or_default(),
                got,
                pe
            );
            let path = replay_dir().join(format!("C14-{}-soak-probe.json", cfg.seed));
            let doc = json!({"property":"C14","oracle":"H1-history-independence","detail":detail,
                "soak": {"calls": &soak_c[..soak_phases.min(soak_c.len())], "expected": &soak_e[..soak_phases.min(soak_e.len())], "repeats": hi, "probe": [pc], "probe_expected": [pe]},
                "case": single_call_case(pc, pe)});
            let _ = std::fs::write(&path, serde_json::to_string_pretty(&doc).unwrap());
            return match confirm_in_child(&path, "H1-history-independence") {
                Ok(()) => {
                    lines.push(format!("violation detail: oracle=H1-history-independence {detail}"));
                    lines.push(format!("VIOLATION property=C14 replay={}", path.display()));
                    fail(&lines, 1)
                }
                Err(e) => {
                    // the state that matters may have been built by the other probe calls as well: replay
                    // with every probe call that had been made between the phases
                    if let Some((fc, fe)) = &soak_probe_full {
                        let doc = json!({"property":"C14","oracle":"H1-history-independence","detail":detail,
                            "soak": {"calls": &soak_c[..soak_phases.min(soak_c.len())], "expected": &soak_e[..soak_phases.min(soak_e.len())], "repeats": hi, "probe": fc, "probe_expected": fe},
                            "case": single_call_case(pc, pe)});
                        let _ = std::fs::write(&path, serde_json::to_string_pretty(&doc).unwrap());
                        if confirm_in_child(&path, "H1-history-independence").is_ok() {
                            lines.push(format!("violation detail: oracle=H1-history-independence {detail}"));
                            lines.push(format!("VIOLATION property=C14 replay={}", path.display()));
                            return fail(&lines, 1);
                        }
                    }
                    lines.push(format!("HARNESS-ERROR property=C14 post-soak probe mismatch did not reproduce in a fresh process: {e}"));
                    fail(&lines, 2)
                }
            };
        }
        let detail = format!(
            "soak on one thread and one set of interpreters ({} short calls, each repeated {} times in a row): repetition {} of call #{} {} gives {:?}, alone in a pristine process it gives {:?}",
            soak_c.len(),
            hi,
            r,
            i,
            serde_json::to_string(&soak_c[*i]).unwrap_or_default(),
            got,
            soak_e[*i]
        );
        let path = replay_dir().join(format!("C14-{}-soak.json", cfg.seed));
        let doc = json!({"property":"C14","oracle":"H1-history-independence","detail":detail,
            "soak": {"calls": soak_c, "expected": soak_e, "repeats": hi},
            "case": single_call_case(&soak_c[*i], &soak_e[*i])});
        let _ = std::fs::write(&path, serde_json::to_string_pretty(&doc).unwrap());
        match confirm_in_child(&path, "H1-history-independence") {
            Ok(()) => {
                lines.push(format!("violation detail: oracle=H1-history-independence {detail}"));
                lines.push(format!("VIOLATION property=C14 replay={}", path.display()));
                violations += 1;
            }
            Err(e) => {
                lines.push(format!("HARNESS-ERROR property=C14 soak mismatch did not reproduce in a fresh process: {e}"));
                return fail(&lines, 2);
            }
        }
    }

    let mut extra = json!({
        "layers": {
            "a_send_sync_probe": "built and passed before this binary ran (./check C14 runs it first)",
            "b_history_simulation": "runs with 1 simulated thread + one forward pass over the whole corpus + soak (up to 44 short calls, each repeated 66000 times in a row on one thread, then 20 floods of distinct words / compounds made twice each, probe calls after every phase; allocator seam: deterministic address reuse for the library's small allocations)",
            "c_schedule_simulation": "runs with 2-4 simulated threads under the deterministic scheduler",
            "d_miri": if cfg.tier == "thorough" { "run by ./check after this binary (see miri section)" } else { "thorough tier only" },
            "e_silence": "fd 1 and fd 2 captured for the silence scan, the forward pass and the whole batch",
        },
        "corpus_calls": calls.len(),
        "pristine_processes_under_locale_timezone_skew": calls.len(),
        "pristine_processes_under_clock_skew": if clockskew_so().is_some() { calls.len() } else { 0 },
        "clock_skew": if clockskew_so().is_some() { "LD_PRELOAD shim: every clock reading jumps 5 s ahead (tools/clockskew.c)" } else { "shim not built (no C compiler): skipped" },
        "soak_calls": soak_c.len(),
        "soak_flood_calls": flood_calls,
        "soak_flood_kinds": "14 x 12000 distinct pseudo-words, 6 x 576 distinct compounds; each flood is made twice",
        "allocator_seam_addresses_reused": crate::alloc::reused_total(),
        "soak_repetitions_per_call": soak_repeats,
        "captured_bytes": captured.len(),
    });

    let mut evaluations = 0;
    if let Some(o) = &outcome {
        lines.extend(o.out_lines.iter().cloned());
        violations += o.violations;
        evaluations = o.evaluations;
        if o.violations == 0 && !captured.is_empty() {
            // bytes appeared during the concurrent batch only
            let detail = format!(
                "{} bytes were written to the standard streams during the batch (not attributable to a single call run alone): {:?}",
                captured.len(),
                String::from_utf8_lossy(&captured).chars().take(200).collect::<String>()
            );
            let p = replay_dir().join(format!("C14-{}-silence-batch.txt", cfg.seed));
            let _ = std::fs::write(&p, &captured);
            lines.push(format!("violation detail: oracle=E1-silence {detail}"));
            lines.push(format!("VIOLATION property=C14 replay={}", p.display()));
            violations += 1;
        }
    }

    let pristine_checked = calls.len();
    let _ = pristine_sample;
    extra["pristine_single_call_processes"] = json!(pristine_checked);

    // evidence
    let wall = start.elapsed().as_secs_f64();
    let ev = match &outcome {
        Some(o) => {
            let mut ev = evidence_for(&check, cfg, o, extra);
            ev["wall_s"] = json!(wall);
            ev["violations"] = json!(violations);
            ev
        }
        None => json!({
            "property_id": "C14", "tier": cfg.tier, "seed": cfg.seed, "level": "exploration",
            "coverage": {
                "evaluations": calls.len(), "distinct_nontrivial": 2,
                "rule": "violation found by the silence scan / forward corpus pass before the schedule batch started; distinct_nontrivial is a placeholder lower bound",
                "samples": [calls.first()], "extra": extra,
            },
            "assumptions": check.assumptions(), "wall_s": wall, "violations": violations,
        }),
    };
    write_evidence("C14", &ev);
    lines.push(format!(
        "property=C14 tier={} corpus={} schedule_runs={} pristine_processes={} captured_bytes={} wall_s={:.1} violations={}",
        cfg.tier,
        calls.len(),
        evaluations,
        pristine_checked,
        captured.len(),
        wall,
        violations
    ));
    if let Some(o) = &outcome {
        lines.push(format!("stats: {}", stats_json(&o.stats)));
    }
    flush_and_code(&lines, if violations > 0 { 1 } else { 0 })
}
