//! Orchestration of the C14 layers around the generic batch driver.

use std::io::{Read, Seek, SeekFrom};
use std::os::fd::AsRawFd;
use std::path::PathBuf;

use serde_json::{json, Value};

use crate::c14::*;
use crate::driver::*;
use crate::pools::langs;
use crate::rng::{run_seed, Rng};

/// Process-wide capture of fd 1 and fd 2 into an anonymous (unlinked) file.
pub struct Capture {
    saved1: i32,
    saved2: i32,
    file: std::fs::File,
}

impl Capture {
    pub fn start() -> Capture {
        use std::io::Write;
        let _ = std::io::stdout().flush();
        let dir = replay_dir();
        let path = dir.join(format!(".capture-{}", std::process::id()));
        let file = std::fs::OpenOptions::new().read(true).write(true).create(true).truncate(true).open(&path).expect("capture file");
        let _ = std::fs::remove_file(&path);
        unsafe {
            let saved1 = libc::dup(1);
            let saved2 = libc::dup(2);
            libc::dup2(file.as_raw_fd(), 1);
            libc::dup2(file.as_raw_fd(), 2);
            *SAVED_FDS.lock().unwrap() = Some((saved1, saved2));
            Capture { saved1, saved2, file }
        }
    }
    pub fn bytes(&self) -> u64 {
        self.file.metadata().map(|m| m.len()).unwrap_or(0)
    }
    pub fn stop(mut self) -> Vec<u8> {
        *SAVED_FDS.lock().unwrap() = None;
        unsafe {
            libc::dup2(self.saved1, 1);
            libc::dup2(self.saved2, 2);
            libc::close(self.saved1);
            libc::close(self.saved2);
        }
        let mut v = vec![];
        let _ = self.file.seek(SeekFrom::Start(0));
        let _ = self.file.read_to_end(&mut v);
        v
    }
}

fn tmp_path(name: &str) -> PathBuf {
    replay_dir().join(format!(".tmp-{}-{}", std::process::id(), name))
}

/// `t2n-sim reference <calls.json> <out.json>` — runs in a pristine child process.
pub fn reference_main(input: &str, output: &str) -> i32 {
    let calls: Vec<Call> = match std::fs::read_to_string(input).ok().and_then(|s| serde_json::from_str(&s).ok()) {
        Some(c) => c,
        None => return 2,
    };
    let res = reference_results(&calls);
    match std::fs::write(output, serde_json::to_string(&res).unwrap()) {
        Ok(()) => 0,
        Err(_) => 2,
    }
}

fn child_reference(calls: &[Call], tag: &str) -> Result<Vec<String>, String> {
    let inp = tmp_path(&format!("{tag}-in.json"));
    let outp = tmp_path(&format!("{tag}-out.json"));
    std::fs::write(&inp, serde_json::to_string(calls).unwrap()).map_err(|e| e.to_string())?;
    let exe = std::env::current_exe().map_err(|e| e.to_string())?;
    let o = std::process::Command::new(exe).arg("reference").arg(&inp).arg(&outp).output().map_err(|e| e.to_string())?;
    let r = if o.status.code() == Some(0) {
        std::fs::read_to_string(&outp).ok().and_then(|s| serde_json::from_str::<Vec<String>>(&s).ok()).ok_or_else(|| "cannot read reference output".to_string())
    } else {
        Err(format!("reference child failed: {:?}", o.status.code()))
    };
    let _ = std::fs::remove_file(&inp);
    let _ = std::fs::remove_file(&outp);
    // the reference process itself must be silent too
    if r.is_ok() && (!o.stdout.is_empty() || !o.stderr.is_empty()) {
        return Err(format!("SILENCE:{}", String::from_utf8_lossy(&[o.stdout, o.stderr].concat()).chars().take(300).collect::<String>()));
    }
    r
}

fn single_call_case(call: &Call, expected: &str) -> Case {
    Case { calls: vec![call.clone()], expected: vec![expected.to_string()], threads: vec![vec![0]], policy: 0, sched_seed: 0, trace: None }
}

fn report_violation(lines: &mut Vec<String>, seed: u64, tag: u64, case: &Case, oracle: &str, detail: &str) -> bool {
    let v = Violation { oracle: oracle.to_string(), detail: detail.to_string() };
    let dummy = C14 { corpus: Corpus { calls: vec![], expected: vec![] } };
    let path = write_replay(&dummy, seed, tag, case, &v, "found outside the schedule batch (single call)");
    match confirm_in_child(&path, oracle) {
        Ok(()) => {
            lines.push(format!("violation detail: oracle={oracle} {detail}"));
            lines.push(format!("VIOLATION property=C14 replay={}", path.display()));
            true
        }
        Err(e) => {
            lines.push(format!("HARNESS-ERROR property=C14 replay {} did not reproduce in a fresh process: {e}", path.display()));
            false
        }
    }
}

/// C14-specific replay: the case is executed under fd capture, so that both result
/// mismatches and stray output reproduce.
pub fn replay_c14(doc: &Value) -> i32 {
    let case: Case = match serde_json::from_value(doc["case"].clone()) {
        Ok(c) => c,
        Err(e) => {
            eprintln!("harness error: cannot parse case: {e}");
            return 2;
        }
    };
    let check = C14 { corpus: Corpus { calls: vec![], expected: vec![] } };
    let cap = Capture::start();
    let mut st = Stats::default();
    let r = guarded(|| check.execute(&case, &mut st));
    let bytes = cap.stop();
    let mut out = vec![];
    let code = match r {
        Ok(RunResult { violation: Some(v), .. }) => {
            out.push(format!("REPLAY property=C14 oracle={} detail={}", v.oracle, v.detail));
            out.push(format!("REPLAY-RESULT violation-reproduced oracle={}", v.oracle));
            1
        }
        Ok(_) if !bytes.is_empty() => {
            out.push(format!("REPLAY property=C14 oracle=E1-silence captured {} bytes: {:?}", bytes.len(), String::from_utf8_lossy(&bytes).chars().take(200).collect::<String>()));
            out.push("REPLAY-RESULT violation-reproduced oracle=E1-silence".to_string());
            1
        }
        Ok(_) => {
            out.push("REPLAY-RESULT no-violation property=C14".to_string());
            0
        }
        Err(p) => {
            out.push(format!("harness error during replay: {p}"));
            2
        }
    };
    flush_and_code(&out, code)
}

pub fn run_c14(cfg: &BatchCfg, corpus_size: usize, pristine_sample: usize) -> i32 {
    let start = std::time::Instant::now();
    println!(
        "VERIF_SEED={} property=C14 tier={} runs<={} budget_s={} workers={} corpus={}",
        cfg.seed, cfg.tier, cfg.runs, cfg.budget_s, cfg.workers, corpus_size
    );
    let mut lines: Vec<String> = vec![];
    let mut violations = 0u64;
    let fail = |lines: &Vec<String>, code: i32| -> i32 { flush_and_code(lines, code) };

    // corpus and reference table (pristine child, fresh interpreters per call, reverse order)
    let calls = gen_corpus(cfg.seed, corpus_size);
    let expected = match child_reference(&calls, "ref") {
        Ok(e) => e,
        Err(e) if e.starts_with("SILENCE:") => {
            // attribute below by the silence scan; continue with an in-process table
            lines.push(format!("note: reference child wrote to its standard streams: {}", &e[8..]));
            reference_results(&calls)
        }
        Err(e) => {
            lines.push(format!("HARNESS-ERROR property=C14 {e}"));
            return fail(&lines, 2);
        }
    };
    if expected.len() != calls.len() {
        lines.push("HARNESS-ERROR property=C14 reference table has the wrong length".into());
        return fail(&lines, 2);
    }

    // ---- everything from here on runs with fd 1 / fd 2 captured
    let cap = Capture::start();

    // (e) silence scan, one call at a time on the shared interpreters
    let mut silence_hit: Option<(usize, u64)> = None;
    {
        let ls = langs();
        let mut last = cap.bytes();
        for (i, c) in calls.iter().enumerate() {
            let _ = exec_call(ls, c, false);
            let now = cap.bytes();
            if now > last {
                silence_hit = Some((i, now - last));
                break;
            }
            last = now;
        }
    }
    // (b') single-thread pass over the whole corpus on the shared interpreters, forward order
    let mut direct_mismatch: Option<usize> = None;
    if silence_hit.is_none() {
        let ls = langs();
        for (i, c) in calls.iter().enumerate() {
            if exec_call(ls, c, false) != expected[i] {
                direct_mismatch = Some(i);
                break;
            }
        }
    }

    let check = C14 { corpus: Corpus { calls: calls.clone(), expected: expected.clone() } };
    let outcome = if silence_hit.is_none() && direct_mismatch.is_none() { Some(run_batch(&check, cfg)) } else { None };
    let captured = cap.stop();
    // ---- capture ends

    if let Some((i, n)) = silence_hit {
        let detail = format!(
            "call {} wrote {n} bytes to the process's standard streams: {:?}",
            serde_json::to_string(&calls[i]).unwrap_or_default(),
            String::from_utf8_lossy(&captured).chars().take(200).collect::<String>()
        );
        if report_violation(&mut lines, cfg.seed, 900_000 + i as u64, &single_call_case(&calls[i], &expected[i]), "E1-silence", &detail) {
            violations += 1;
        } else {
            return fail(&lines, 2);
        }
    } else if let Some(i) = direct_mismatch {
        // shrink the forward history 0..=i to something small through the generic machinery
        let case = Case {
            calls: calls[..=i].to_vec(),
            expected: expected[..=i].to_vec(),
            threads: vec![(0..=i).collect()],
            policy: 0,
            sched_seed: 0,
            trace: None,
        };
        let mut st = Stats::default();
        let r = check.execute(&case, &mut st);
        match r.violation {
            Some(v0) => {
                let (min_case, v, execs) = minimise(&check, &case, &v0.oracle);
                let path = write_replay(&check, cfg.seed, 800_000 + i as u64, &min_case, &v, &format!("minimised with {execs} re-executions from the forward corpus pass up to call {i}"));
                match confirm_in_child(&path, &v.oracle) {
                    Ok(()) => {
                        lines.push(format!("violation detail: oracle={} {}", v.oracle, v.detail));
                        lines.push(format!("VIOLATION property=C14 replay={}", path.display()));
                        violations += 1;
                    }
                    Err(e) => {
                        lines.push(format!("HARNESS-ERROR property=C14 replay {} did not reproduce: {e}", path.display()));
                        return fail(&lines, 2);
                    }
                }
            }
            None => {
                lines.push(format!("HARNESS-ERROR property=C14 corpus call {i} disagreed with the reference table in the forward pass but not when its history was re-executed"));
                return fail(&lines, 2);
            }
        }
    }

    let mut extra = json!({
        "layers": {
            "a_send_sync_probe": "built and passed before this binary ran (./check C14 runs it first)",
            "b_history_simulation": "runs with 1 simulated thread + one forward pass over the whole corpus",
            "c_schedule_simulation": "runs with 2-4 simulated threads under the deterministic scheduler",
            "d_miri": if cfg.tier == "thorough" { "run by ./check after this binary (see miri section)" } else { "thorough tier only" },
            "e_silence": "fd 1 and fd 2 captured for the silence scan, the forward pass and the whole batch",
        },
        "corpus_calls": calls.len(),
        "captured_bytes": captured.len(),
    });

    let mut evaluations = 0;
    if let Some(o) = &outcome {
        lines.extend(o.out_lines.iter().cloned());
        violations += o.violations;
        evaluations = o.evaluations;
        if o.violations == 0 && !captured.is_empty() {
            // bytes appeared during the concurrent batch only
            let detail = format!(
                "{} bytes were written to the standard streams during the batch (not attributable to a single call run alone): {:?}",
                captured.len(),
                String::from_utf8_lossy(&captured).chars().take(200).collect::<String>()
            );
            let p = replay_dir().join(format!("C14-{}-silence-batch.txt", cfg.seed));
            let _ = std::fs::write(&p, &captured);
            lines.push(format!("violation detail: oracle=E1-silence {detail}"));
            lines.push(format!("VIOLATION property=C14 replay={}", p.display()));
            violations += 1;
        }
    }

    // pristine sample: one process per call
    let mut pristine_checked = 0;
    if violations == 0 {
        let mut rng = Rng::new(run_seed(cfg.seed, "C14-pristine", 0));
        for k in 0..pristine_sample {
            let i = rng.below(calls.len());
            match child_reference(std::slice::from_ref(&calls[i]), &format!("one{k}")) {
                Ok(r) if r.len() == 1 => {
                    pristine_checked += 1;
                    if r[0] != expected[i] {
                        let detail = format!(
                            "call {} gives {:?} alone in a pristine process but {:?} in the reference process that had executed other calls before",
                            serde_json::to_string(&calls[i]).unwrap_or_default(),
                            r[0],
                            expected[i]
                        );
                        let p = replay_dir().join(format!("C14-{}-pristine-{i}.json", cfg.seed));
                        let _ = std::fs::write(&p, serde_json::to_string_pretty(&json!({"property":"C14","oracle":"H3-pristine-process","detail":detail,"calls":calls,"index":i})).unwrap());
                        lines.push(format!("violation detail: oracle=H3-pristine-process {detail}"));
                        lines.push(format!("VIOLATION property=C14 replay={}", p.display()));
                        violations += 1;
                        break;
                    }
                }
                Ok(_) => {}
                Err(e) if e.starts_with("SILENCE:") => {
                    if report_violation(&mut lines, cfg.seed, 700_000 + i as u64, &single_call_case(&calls[i], &expected[i]), "E1-silence", &format!("pristine child wrote: {}", &e[8..])) {
                        violations += 1;
                    }
                    break;
                }
                Err(e) => {
                    lines.push(format!("HARNESS-ERROR property=C14 pristine child: {e}"));
                    return fail(&lines, 2);
                }
            }
        }
    }
    extra["pristine_single_call_processes"] = json!(pristine_checked);

    // evidence
    let wall = start.elapsed().as_secs_f64();
    let ev = match &outcome {
        Some(o) => {
            let mut ev = evidence_for(&check, cfg, o, extra);
            ev["wall_s"] = json!(wall);
            ev["violations"] = json!(violations);
            ev
        }
        None => json!({
            "property_id": "C14", "tier": cfg.tier, "seed": cfg.seed, "level": "exploration",
            "coverage": {
                "evaluations": calls.len(), "distinct_nontrivial": 2,
                "rule": "violation found by the silence scan / forward corpus pass before the schedule batch started; distinct_nontrivial is a placeholder lower bound",
                "samples": [calls.first()], "extra": extra,
            },
            "assumptions": check.assumptions(), "wall_s": wall, "violations": violations,
        }),
    };
    write_evidence("C14", &ev);
    lines.push(format!(
        "property=C14 tier={} corpus={} schedule_runs={} pristine_processes={} captured_bytes={} wall_s={:.1} violations={}",
        cfg.tier,
        calls.len(),
        evaluations,
        pristine_checked,
        captured.len(),
        wall,
        violations
    ));
    if let Some(o) = &outcome {
        lines.push(format!("stats: {}", stats_json(&o.stats)));
    }
    flush_and_code(&lines, if violations > 0 { 1 } else { 0 })
}
