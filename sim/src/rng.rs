//! The only source of randomness in the simulator: splitmix64 for seed derivation and
//! xoshiro256** for the per-run stream. Implemented here so that one integer fixes a
//! run on every platform and no dependency can change it.

pub const DEFAULT_SEED: u64 = 20260926;
const PHI: u64 = 0x9E37_79B9_7F4A_7C15;

pub fn splitmix64(mut x: u64) -> u64 {
    x = x.wrapping_add(PHI);
    let mut z = x;
    z = (z ^ (z >> 30)).wrapping_mul(0xBF58_476D_1CE4_E5B9);
    z = (z ^ (z >> 27)).wrapping_mul(0x94D0_49BB_1331_11EB);
    z ^ (z >> 31)
}

/// Seed of run `index` of check `tag` under the global `VERIF_SEED`.
pub fn run_seed(global: u64, tag: &str, index: u64) -> u64 {
    let mut t = 0xcbf2_9ce4_8422_2325u64;
    for b in tag.bytes() {
        t ^= b as u64;
        t = t.wrapping_mul(0x100_0000_01b3);
    }
    splitmix64(global ^ t ^ index.wrapping_mul(PHI))
}

#[derive(Clone, Debug)]
pub struct Rng {
    s: [u64; 4],
}

impl Rng {
    pub fn new(seed: u64) -> Self {
        let mut x = seed;
        let mut s = [0u64; 4];
        for v in s.iter_mut() {
            x = splitmix64(x);
            *v = x;
        }
        if s == [0; 4] {
            s[0] = 1;
        }
        Rng { s }
    }

    pub fn next_u64(&mut self) -> u64 {
        let result = self.s[1].wrapping_mul(5).rotate_left(7).wrapping_mul(9);
        let t = self.s[1] << 17;
        self.s[2] ^= self.s[0];
        self.s[3] ^= self.s[1];
        self.s[1] ^= self.s[2];
        self.s[0] ^= self.s[3];
        self.s[2] ^= t;
        self.s[3] = self.s[3].rotate_left(45);
        result
    }

    /// Uniform in `0..n` (n > 0). Modulo bias is irrelevant at these sizes.
    pub fn below(&mut self, n: usize) -> usize {
        debug_assert!(n > 0);
        (self.next_u64() % n as u64) as usize
    }

    /// Inclusive range.
    pub fn range(&mut self, lo: usize, hi: usize) -> usize {
        lo + self.below(hi - lo + 1)
    }

    /// True with probability `num/den`.
    pub fn chance(&mut self, num: u32, den: u32) -> bool {
        (self.next_u64() % den as u64) < num as u64
    }

    pub fn pick<'a, T>(&mut self, xs: &'a [T]) -> &'a T {
        &xs[self.below(xs.len())]
    }

    pub fn word(&mut self, xs: &[&'static str]) -> &'static str {
        xs[self.below(xs.len())]
    }

    /// Weighted choice: returns an index into `weights` (sum must be > 0).
    pub fn weighted(&mut self, weights: &[u32]) -> usize {
        let total: u64 = weights.iter().map(|&w| w as u64).sum();
        let mut x = self.next_u64() % total.max(1);
        for (i, &w) in weights.iter().enumerate() {
            if x < w as u64 {
                return i;
            }
            x -= w as u64;
        }
        weights.len() - 1
    }
}

/// FNV-1a style incremental 64-bit hash used for run fingerprints (no `RandomState`).
#[derive(Clone, Copy, Debug)]
pub struct Fp(pub u64);

impl Default for Fp {
    fn default() -> Self {
        Fp(0xcbf2_9ce4_8422_2325)
    }
}

impl Fp {
    pub fn new() -> Self {
        Self::default()
    }
    pub fn u64(&mut self, v: u64) {
        self.0 ^= v;
        self.0 = self.0.wrapping_mul(0x100_0000_01b3);
        self.0 = self.0.rotate_left(23) ^ (self.0 >> 17);
    }
    pub fn bytes(&mut self, b: &[u8]) {
        self.u64(b.len() as u64);
        for chunk in b.chunks(8) {
            let mut v = 0u64;
            for (i, &c) in chunk.iter().enumerate() {
                v |= (c as u64) << (8 * i);
            }
            self.u64(v);
        }
    }
    pub fn str(&mut self, s: &str) {
        self.bytes(s.as_bytes())
    }
    pub fn finish(&self) -> u64 {
        splitmix64(self.0)
    }
}

/// True when the run was started for the thorough tier (sizes of the rare giant cases scale up).
pub fn thorough_tier() -> bool {
    static T: std::sync::OnceLock<bool> = std::sync::OnceLock::new();
    *T.get_or_init(|| std::env::var("VERIF_TIER").map(|v| v == "thorough").unwrap_or(false))
}
