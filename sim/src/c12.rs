//! C12 — digit builder: operation histories against an executable reference model,
//! failure atomicity by full-state snapshots. The "fault" is the refused operation.

use serde::{Deserialize, Serialize};
use text2num::digit_string::DigitString;
use text2num::lang::MorphologicalMarker;

use crate::driver::{guarded, Check, RunResult, Stats, Violation};
use crate::rng::{Fp, Rng};

#[derive(Clone, Debug, Serialize, Deserialize, PartialEq)]
pub enum Op {
    Put(String),
    PutDigitAt(char, usize),
    Fput(String),
    Push(String),
    Shift(usize),
    Freeze,
    Reset,
    SetFlags(u64),
    /// 0 = None, 1 = Ordinal("th"), 2 = Fraction("avo")
    SetMarker(u8),
}

#[derive(Clone, Debug, Serialize, Deserialize)]
pub struct Case {
    /// a run of identical operations executed first, compared with the model by result at every
    /// step and by full snapshot only at its end (tens of thousands of steps stay affordable)
    #[serde(default)]
    pub prefix: Option<(Op, usize)>,
    /// how the builder comes into being: 0 = DigitString::new(), 1 = Default::default(),
    /// 2 = what std::mem::take leaves behind in place of a used builder
    #[serde(default)]
    pub birth: u8,
    pub ops: Vec<Op>,
}

fn marker_of(k: u8) -> MorphologicalMarker {
    match k {
        1 => MorphologicalMarker::Ordinal("th"),
        2 => MorphologicalMarker::Fraction("avo"),
        _ => MorphologicalMarker::None,
    }
}

/// Reference model: digits by decimal position (index 0 = units).
#[derive(Clone, Debug, Default)]
struct Model {
    d: Vec<u8>, // numeric 0..=9, little endian
    lz: usize,
    frozen: bool,
    flags: u64,
    marker: u8,
}

fn digits_le(x: &str) -> Vec<u8> {
    x.bytes().rev().map(|b| b - b'0').collect()
}

impl Model {
    fn l(&self) -> usize {
        self.d.len()
    }

    /// Apply `op`; Ok(()) / Err(()) as documented. Never changes anything on Err.
    fn apply(&mut self, op: &Op) -> Result<(), ()> {
        match op {
            Op::Put(x) => {
                if self.frozen {
                    return Err(());
                }
                if self.d.is_empty() && x == "0" {
                    self.lz += 1;
                    return Ok(());
                }
                let v = digits_le(x);
                if v.iter().all(|&c| c == 0) {
                    return Err(());
                }
                if self.d.is_empty() {
                    self.d = v;
                    return Ok(());
                }
                if v.len() > self.l() {
                    return Err(());
                }
                if self.d[..v.len()].iter().all(|&c| c == 0) {
                    self.d[..v.len()].copy_from_slice(&v);
                    Ok(())
                } else {
                    Err(())
                }
            }
            Op::PutDigitAt(c, p) => {
                if self.frozen || *c == '0' {
                    return Err(());
                }
                let dv = *c as u8 - b'0';
                if *p >= self.l() {
                    self.d.resize(*p + 1, 0);
                    self.d[*p] = dv;
                    Ok(())
                } else if self.d[*p] == 0 {
                    self.d[*p] = dv;
                    Ok(())
                } else {
                    Err(())
                }
            }
            Op::Fput(x) => {
                if self.frozen {
                    return Err(());
                }
                let v = digits_le(x);
                if self.l() < v.len() {
                    self.d.resize(v.len(), 0);
                }
                self.d[..v.len()].copy_from_slice(&v);
                Ok(())
            }
            Op::Push(x) => {
                let mut v = digits_le(x);
                v.extend_from_slice(&self.d);
                self.d = v;
                Ok(())
            }
            Op::Shift(p) => {
                let p = *p;
                if self.frozen {
                    return Err(());
                }
                if p == 0 {
                    return Ok(());
                }
                if self.d.is_empty() {
                    // nothing on the starting position: an implicit 1, times 10^p
                    self.d = vec![0; p];
                    self.d.push(1);
                    return Ok(());
                }
                if self.l() <= p {
                    let mut v = vec![0; p];
                    v.extend_from_slice(&self.d);
                    self.d = v;
                    return Ok(());
                }
                // rightmost p-digit group
                let mut g: Vec<u8> = self.d[..p].to_vec();
                if g.iter().all(|&c| c == 0) {
                    g[0] = 1; // implicit one
                }
                let s = g.iter().rposition(|&c| c != 0).unwrap() + 1; // significant digits
                if self.l() >= p + s && self.d[p..p + s].iter().all(|&c| c == 0) {
                    for i in 0..p {
                        self.d[i] = 0;
                    }
                    self.d[p..p + s].copy_from_slice(&g[..s]);
                    Ok(())
                } else {
                    Err(())
                }
            }
            Op::Freeze => {
                self.frozen = true;
                Ok(())
            }
            Op::Reset => {
                *self = Model::default();
                Ok(())
            }
            Op::SetFlags(f) => {
                self.flags = *f;
                Ok(())
            }
            Op::SetMarker(k) => {
                self.marker = *k;
                Ok(())
            }
        }
    }

    fn be(&self) -> Vec<u8> {
        self.d.iter().rev().map(|&c| c + b'0').collect()
    }

    fn snapshot(&self) -> Snapshot {
        let l = self.l();
        let be = self.be();
        let mut rendering = "0".repeat(self.lz);
        rendering.push_str(std::str::from_utf8(&be).unwrap());
        let kmax = (l + 1).min(KMAX);
        let mut peeks = vec![];
        let mut frees = vec![];
        let mut posfree = vec![];
        for k in 0..=kmax {
            let n = k.min(l);
            peeks.push(be[l - n..].to_vec());
            frees.push(self.d[..n].iter().all(|&c| c == 0));
            posfree.push(k >= l || self.d[k] == 0);
        }
        let mut ranges = vec![];
        for (a, b) in range_pairs(l) {
            let free = a >= l || self.d[a..=b.min(l - 1)].iter().all(|&c| c == 0);
            ranges.push(free);
        }
        // extreme arguments: positions far beyond anything placed
        let all_zero = self.d.iter().all(|&c| c == 0);
        peeks.push(be.clone());
        frees.push(all_zero);
        posfree.push(true);
        ranges.push(all_zero);
        ranges.push(true);
        Snapshot {
            rendering,
            len: l + self.lz,
            is_empty: l == 0 && self.lz == 0,
            is_null: l == 0,
            deref: be,
            flags: self.flags,
            marker: format!("{:?}", marker_of(self.marker)),
            is_ordinal: self.marker == 1,
            peeks,
            frees,
            posfree,
            ranges,
            frozen: self.frozen,
        }
    }
}

/// positional queries are made for 0..=min(L+1, KMAX), plus usize::MAX
const KMAX: usize = 26;

fn range_pairs(l: usize) -> Vec<(usize, usize)> {
    let mut v = vec![];
    for a in 0..(l + 1).min(9) {
        for b in a + 1..a + 4 {
            v.push((a, b));
        }
    }
    v.push((3, 5));
    v.push((6, 8));
    v
}

#[derive(Clone, Debug, PartialEq)]
struct Snapshot {
    rendering: String,
    len: usize,
    is_empty: bool,
    is_null: bool,
    deref: Vec<u8>,
    flags: u64,
    marker: String,
    is_ordinal: bool,
    peeks: Vec<Vec<u8>>,
    frees: Vec<bool>,
    posfree: Vec<bool>,
    ranges: Vec<bool>,
    frozen: bool,
}

impl Snapshot {
    fn diff(&self, other: &Snapshot) -> String {
        let mut out = vec![];
        macro_rules! f {
            ($n:ident) => {
                if self.$n != other.$n {
                    out.push(format!("{}: {:?} vs {:?}", stringify!($n), self.$n, other.$n));
                }
            };
        }
        f!(rendering);
        f!(len);
        f!(is_empty);
        f!(is_null);
        f!(deref);
        f!(flags);
        f!(marker);
        f!(is_ordinal);
        f!(peeks);
        f!(frees);
        f!(posfree);
        f!(ranges);
        f!(frozen);
        out.join("; ")
    }
}

fn apply_real(ds: &mut DigitString, op: &Op) -> Result<(), ()> {
    match op {
        Op::Put(x) => ds.put(x.as_bytes()).map_err(|_| ()),
        Op::PutDigitAt(c, p) => ds.put_digit_at(*c as u8, *p).map_err(|_| ()),
        Op::Fput(x) => ds.fput(x.as_bytes()).map_err(|_| ()),
        Op::Push(x) => ds.push(x.as_bytes()).map_err(|_| ()),
        Op::Shift(p) => ds.shift(*p).map_err(|_| ()),
        Op::Freeze => {
            ds.freeze();
            Ok(())
        }
        Op::Reset => {
            ds.reset();
            Ok(())
        }
        Op::SetFlags(f) => {
            ds.flags = *f;
            Ok(())
        }
        Op::SetMarker(k) => {
            ds.marker = marker_of(*k);
            Ok(())
        }
    }
}

/// Every public query of the real object, plus frozenness observed on a replayed copy.
fn snapshot_real(ds: &DigitString, history: &[Op]) -> Snapshot {
    let l = ds.len() - count_leading(ds);
    let kmax = (l + 1).min(KMAX);
    let mut peeks = vec![];
    let mut frees = vec![];
    let mut posfree = vec![];
    for k in 0..=kmax {
        peeks.push(ds.peek(k).to_vec());
        frees.push(ds.is_free(k));
        posfree.push(ds.is_position_free(k));
    }
    let mut ranges = vec![];
    for (a, b) in range_pairs(l) {
        ranges.push(ds.is_range_free(a, b));
    }
    peeks.push(ds.peek(usize::MAX).to_vec());
    frees.push(ds.is_free(usize::MAX));
    posfree.push(ds.is_position_free(usize::MAX));
    ranges.push(ds.is_range_free(0, usize::MAX));
    ranges.push(ds.is_range_free(usize::MAX - 1, usize::MAX));
    // frozenness: replay the history on a fresh builder and try an operation that can
    // only be refused by a frozen builder (a non-zero digit far left of everything).
    let mut probe = DigitString::new();
    for op in history {
        let _ = apply_real(&mut probe, op);
    }
    let frozen = probe.put_digit_at(b'1', l + 5).is_err();
    Snapshot {
        rendering: ds.to_string(),
        len: ds.len(),
        is_empty: ds.is_empty(),
        is_null: ds.is_null(),
        deref: (**ds).to_vec(),
        flags: ds.flags,
        marker: format!("{:?}", ds.marker),
        is_ordinal: ds.is_ordinal(),
        peeks,
        frees,
        posfree,
        ranges,
        frozen,
    }
}

fn count_leading(ds: &DigitString) -> usize {
    // leading zeroes are not in the buffer: len() - deref().len()
    ds.len() - (**ds).len()
}

fn nonzero_seq(s: &str) -> Vec<u8> {
    s.bytes().filter(|&b| b != b'0').collect()
}

fn is_subsequence(small: &[u8], big: &[u8]) -> bool {
    let mut it = big.iter();
    small.iter().all(|c| it.any(|d| d == c))
}

pub struct C12;

const DIGIT_WORDS: &[&str] = &[
    "1", "2", "3", "4", "5", "6", "7", "8", "9", "10", "11", "12", "13", "15", "19", "20", "21", "30", "40", "50",
    "60", "70", "71", "80", "90", "99", "100", "101", "200", "300", "500", "900", "1000", "0", "0", "0", "0", "00", "000", "",
    "05", "007", "1234567", "1000000", "120", "4000", "25000", "1000000000",
];

fn gen_digits(rng: &mut Rng) -> String {
    if rng.chance(1, 40) {
        // a long digit group (wider than any machine word or small fixed buffer)
        let n = *rng.pick(&[17usize, 20, 33, 40, 65, 80]);
        let mut s: String = (0..n).map(|_| if rng.chance(2, 3) { '0' } else { (b'0' + rng.below(10) as u8) as char }).collect();
        if rng.chance(1, 2) {
            s.replace_range(0..1, "5");
        }
        return s;
    }
    if rng.chance(4, 5) {
        (*rng.pick(DIGIT_WORDS)).to_string()
    } else {
        let n = rng.range(1, 7);
        (0..n).map(|_| (b'0' + rng.below(10) as u8) as char).collect()
    }
}

fn gen_op(rng: &mut Rng, w: &[u32; 9]) -> Op {
    match rng.weighted(w) {
        0 => Op::Put(gen_digits(rng)),
        1 => Op::PutDigitAt((b'0' + rng.below(10) as u8) as char, if rng.chance(1, 20) { rng.range(15, 70) } else { rng.below(15) }),
        2 => Op::Fput(gen_digits(rng)),
        3 => Op::Push(gen_digits(rng)),
        4 => Op::Shift(*rng.pick(&[0usize, 1, 2, 2, 3, 3, 3, 4, 5, 6, 6, 9, 9, 12, 14, 7, 15, 24, 63])),
        5 => Op::Freeze,
        6 => Op::Reset,
        7 => Op::SetFlags(*rng.pick(&[0u64, 1, 2, 3, 63, u64::MAX])),
        _ => Op::SetMarker(rng.below(3) as u8),
    }
}

impl Check for C12 {
    type Case = Case;
    fn id(&self) -> &'static str {
        "C12"
    }

    fn generate(&self, rng: &mut Rng) -> Case {
        // swarm: per-run operation weights and refusal-injection rate
        let mut w = [0u32; 9];
        let base = [30u32, 12, 8, 5, 25, 1, 4, 3, 3];
        for (i, b) in base.iter().enumerate() {
            w[i] = if rng.chance(1, 6) { 0 } else { 1 + rng.below(*b as usize * 2) as u32 };
        }
        if w.iter().all(|&x| x == 0) {
            w[0] = 1;
        }
        let refusal_pct = rng.range(5, 30) as u32;
        let n = rng.range(1, 40);
        let mut model = Model::default();
        let mut ops = Vec::with_capacity(n);
        // rare long bursts of one cheap operation (counters and capacities have limits too)
        if rng.chance(1, 64) {
            let burst = match rng.below(4) {
                0 | 1 => Op::Put("0".into()),
                2 => Op::Push("0".into()),
                _ => Op::Shift(1),
            };
            let k = *rng.pick(&[70usize, 130, 260, 300]);
            if rng.chance(1, 2) {
                ops.push(Op::Reset);
            }
            for _ in 0..k {
                let _ = model.apply(&burst);
                ops.push(burst.clone());
            }
        }
        // very rare: thousands of digits (limits far away from ordinary use)
        if rng.chance(1, 3000) {
            let chunk: String = (0..50).map(|i| (b'0' + ((i * 7 + 3) % 10) as u8) as char).collect();
            for _ in 0..90 {
                ops.push(Op::Push(chunk.clone()));
                let _ = model.apply(&Op::Push(chunk.clone()));
            }
        }
        // very rare: a run long enough to overflow 16-bit (thorough: 20-bit) counters
        let mut prefix = None;
        if ops.is_empty() && rng.chance(1, 50_000) {
            let op = match rng.below(3) {
                0 | 1 => Op::Put("0".into()),
                _ => Op::Push("7".into()),
            };
            let k = if crate::rng::thorough_tier() && rng.chance(1, 4) { 1_100_000 } else { 70_000 };
            for _ in 0..k {
                let _ = model.apply(&op);
            }
            prefix = Some((op, k));
        }
        let n = n + ops.len();
        while ops.len() < n {
            let want_refusal = rng.chance(refusal_pct, 100);
            let mut op = gen_op(rng, &w);
            if want_refusal {
                // construct an operation the model says must be refused in this state
                for _ in 0..12 {
                    let mut m = model.clone();
                    if m.apply(&op).is_err() {
                        break;
                    }
                    op = match rng.below(4) {
                        0 => Op::Put(gen_digits(rng)),
                        1 => Op::PutDigitAt((b'0' + rng.below(10) as u8) as char, rng.below(model.l() + 2)),
                        2 => Op::Shift(rng.range(1, model.l().max(1) + 1).min(14)),
                        _ => {
                            if !model.frozen && rng.chance(1, 8) {
                                // freeze now, the following guarded mutators will be refused
                                Op::Freeze
                            } else {
                                Op::Shift(rng.range(1, 6))
                            }
                        }
                    };
                }
            }
            let _ = model.apply(&op);
            ops.push(op);
        }
        Case { prefix, birth: *rng.pick(&[0u8, 0, 1, 2]), ops }
    }

    fn execute(&self, case: &Case, stats: &mut Stats) -> RunResult {
        let mut fp = Fp::new();
        let mut model = Model::default();
        let mut refused = 0u64;
        let viol = |oracle: &str, step: usize, detail: String| -> RunResult {
            RunResult {
                fingerprint: 0,
                nontrivial: true,
                events: step as u64,
                violation: Some(Violation {
                    oracle: oracle.to_string(),
                    detail: format!("step {step}: {detail}"),
                }),
            }
        };
        let mut ds = match case.birth {
            1 => DigitString::default(),
            2 => {
                let mut used = DigitString::new();
                let _ = used.put(b"42");
                used.freeze();
                used.flags = 7;
                let taken = std::mem::take(&mut used);
                drop(taken);
                used
            }
            _ => DigitString::new(),
        };
        if let Some((op, k)) = &case.prefix {
            for step in 0..*k {
                let m = model.apply(op);
                let r = match guarded(|| apply_real(&mut ds, op)) {
                    Ok(r) => r,
                    Err(p) => return viol("I7-no-panic", step + 1, format!("repetition {} of {op:?} panicked: {p}", step + 1)),
                };
                if r != m {
                    return viol("I3-model", step + 1, format!("repetition {} of {op:?}: real {:?}, model {:?}", step + 1, r.is_ok(), m.is_ok()));
                }
            }
            // full comparison at the end of the run (frozenness probe replays a short equivalent)
            let after = match guarded(|| snapshot_real(&ds, &[])) {
                Ok(s) => s,
                Err(p) => return viol("I7-no-panic", *k, format!("query after {k} x {op:?} panicked: {p}")),
            };
            let ms = model.snapshot();
            if after.rendering.len() != ms.rendering.len() || after.len != ms.len || after.rendering != ms.rendering || after.is_null != ms.is_null {
                return viol(
                    "I3-model",
                    *k,
                    format!("after {k} x {op:?}: rendering length {} (len() {}) vs model {} (kept leading zeros / digits lost?)", after.rendering.len(), after.len, ms.rendering.len()),
                );
            }
            stats.hit("probe.long_run_prefix");
        }
        // queries on the initial (empty) builder are part of the history
        let mut before = match guarded(|| snapshot_real(&ds, &[])) {
            Ok(s) => s,
            Err(p) => return viol("I7-no-panic", 0, format!("query on a new builder panicked: {p}")),
        };
        if before != model.snapshot() {
            return viol("I3-model", 0, format!("new builder differs from model: {}", before.diff(&model.snapshot())));
        }
        for (i, op) in case.ops.iter().enumerate() {
            let step = i + 1;
            let model_before = model.clone();
            let mut mres = model.apply(op);
            let rres = match guarded(|| apply_real(&mut ds, op)) {
                Ok(r) => r,
                Err(p) => return viol("I7-no-panic", step, format!("{op:?} panicked: {p}")),
            };
            // `push` on a frozen builder is left unconstrained (documented as an unconditional
            // append, while the property says a frozen builder refuses mutating operations): either
            // outcome is accepted, a refusal must change nothing (I2 below) and the model follows it
            if matches!(op, Op::Push(_)) && model_before.frozen && rres.is_err() {
                model = model_before.clone();
                mres = Err(());
                stats.hit("probe.push_refused_by_frozen_builder");
            }
            let after = match guarded(|| snapshot_real(&ds, &case.ops[..step])) {
                Ok(s) => s,
                Err(p) => return viol("I7-no-panic", step, format!("query after {op:?} panicked: {p}")),
            };
            fp.u64(rres.is_ok() as u64);
            fp.str(&after.rendering);
            // I1 rendering well-formed
            if !after.rendering.bytes().all(|b| b.is_ascii_digit()) || after.len != after.rendering.len() {
                return viol(
                    "I1-rendering",
                    step,
                    format!("after {op:?}: rendering {:?} len() {}", after.rendering, after.len),
                );
            }
            // I2 failure atomicity (independent of the model)
            if rres.is_err() {
                refused += 1;
                count_refusal(stats, op, &model_before);
                if after != before {
                    return viol(
                        "I2-failed-step-changes-nothing",
                        step,
                        format!("{op:?} returned Err but changed: {}", before.diff(&after)),
                    );
                }
            }
            // I5 frozen refuses guarded mutators (independent of the model)
            if before.frozen && matches!(op, Op::Put(_) | Op::PutDigitAt(..) | Op::Fput(_) | Op::Shift(_)) && rres.is_ok()
            {
                return viol("I5-frozen-refuses", step, format!("{op:?} accepted by a frozen builder"));
            }
            // I4 successful place/shift keeps previously placed non-zero digits in order
            if rres.is_ok() && matches!(op, Op::Put(_) | Op::PutDigitAt(..) | Op::Shift(_)) {
                let a = nonzero_seq(&before.rendering);
                let b = nonzero_seq(&after.rendering);
                if !is_subsequence(&a, &b) {
                    return viol(
                        "I4-no-digit-lost",
                        step,
                        format!("{op:?}: {:?} -> {:?}", before.rendering, after.rendering),
                    );
                }
            }
            // I6 zero only while the value is still zero, and it is kept
            if let Op::Put(x) = op {
                if x == "0" && rres.is_ok() {
                    if !before.is_null {
                        return viol("I6-leading-zero", step, format!("put(\"0\") accepted on {:?}", before.rendering));
                    }
                    if after.rendering != format!("0{}", before.rendering) {
                        return viol(
                            "I6-leading-zero",
                            step,
                            format!("put(\"0\"): {:?} -> {:?}", before.rendering, after.rendering),
                        );
                    }
                    stats.hit("probe.leading_zero_kept");
                }
            }
            // I3 agreement with the reference model (result and every query)
            if rres != mres {
                return viol(
                    "I3-model",
                    step,
                    format!(
                        "{op:?} on {:?}: real {:?}, model {:?}",
                        before.rendering,
                        rres.is_ok(),
                        mres.is_ok()
                    ),
                );
            }
            let ms = model.snapshot();
            if after != ms {
                return viol("I3-model", step, format!("after {op:?} on {:?}: real vs model: {}", before.rendering, after.diff(&ms)));
            }
            if rres.is_ok() {
                count_ok(stats, op, &model_before);
            }
            before = after;
        }
        fp.u64(case.ops.len() as u64);
        RunResult {
            fingerprint: fp.finish(),
            nontrivial: refused > 0,
            events: case.ops.len() as u64,
            violation: None,
        }
    }

    fn shrink(&self, case: &Case) -> Vec<Case> {
        let mut out = vec![];
        let n = case.ops.len();
        if case.birth != 0 {
            out.push(Case { birth: 0, ..case.clone() });
        }
        if let Some((op, k)) = &case.prefix {
            out.push(Case { prefix: None, birth: case.birth, ops: case.ops.clone() });
            if !case.ops.is_empty() {
                out.push(Case { prefix: case.prefix.clone(), birth: case.birth, ops: vec![] });
            }
            // bisect the length of the run
            for k2 in [k / 2, k - k / 4, k - k / 16, k - k / 256, k.saturating_sub(1)] {
                if k2 > 0 && k2 < *k {
                    out.push(Case { prefix: Some((op.clone(), k2)), birth: case.birth, ops: case.ops.clone() });
                }
            }
        }
        // drop halves, then single operations
        if n > 2 {
            out.push(Case { prefix: case.prefix.clone(), birth: case.birth, ops: case.ops[n / 2..].to_vec() });
            out.push(Case { prefix: case.prefix.clone(), birth: case.birth, ops: case.ops[..n / 2].to_vec() });
        }
        for i in 0..n {
            let mut ops = case.ops.clone();
            ops.remove(i);
            out.push(Case { prefix: case.prefix.clone(), birth: case.birth, ops });
        }
        // simplify arguments
        for i in 0..n {
            let simpler: Vec<Op> = match &case.ops[i] {
                Op::Put(x) if x.len() > 1 => vec![Op::Put(x[1..].to_string()), Op::Put(x[..x.len() - 1].to_string())],
                Op::Fput(x) if x.len() > 1 => vec![Op::Fput(x[1..].to_string()), Op::Put(x.clone())],
                Op::Fput(x) => vec![Op::Put(x.clone())],
                Op::Push(x) if x.len() > 1 => vec![Op::Push(x[1..].to_string())],
                Op::Shift(p) if *p > 1 => vec![Op::Shift(p - 1), Op::Shift(1)],
                Op::PutDigitAt(c, p) if *p > 0 => vec![Op::PutDigitAt(*c, p - 1), Op::PutDigitAt(*c, 0)],
                Op::SetFlags(f) if *f != 0 => vec![Op::SetFlags(0)],
                _ => vec![],
            };
            for s in simpler {
                let mut ops = case.ops.clone();
                ops[i] = s;
                out.push(Case { prefix: case.prefix.clone(), birth: case.birth, ops });
            }
        }
        out
    }

    fn rule(&self) -> String {
        "A run is one operation history (1-40 steps, one run in 64 preceded by a burst of 70-300 identical cheap operations, per-run swarm weights, 10-40% of steps built with the model to be \
         refused in the current state) on text2num::digit_string::DigitString, with a full query snapshot after every \
         step. Non-trivial = at least one refused operation in the history; distinct = distinct 64-bit fingerprints \
         of (result, rendering) sequences among non-trivial runs (bitmap sketch, collisions undercount)."
            .into()
    }

    fn assumptions(&self) -> Vec<String> {
        vec![
            "digit arguments are ASCII digits; mutating positions and shift widths are at most 69 (a position near usize::MAX is an allocation request, not a builder property); queries are also called with usize::MAX; is_range_free is called with start < end (its own debug_assert precondition)".into(),
            "push on a frozen builder is unconstrained by the property's anchor (frozen guard listed for put/put_digit_at/fput/shift only); only the model's documented 'append' semantics is compared".into(),
            "error kinds are not compared, only Ok/Err".into(),
            "the reference model (c12.rs, ~150 lines, positional arithmetic) is trusted; it is validated by the seeded mutants".into(),
            "seeded sampling, not proof".into(),
        ]
    }

    fn real_components(&self) -> Vec<&'static str> {
        vec!["text2num::digit_string::DigitString (all public methods and fields)"]
    }

    fn stub_components(&self) -> Vec<&'static str> {
        vec!["none (reference model is an oracle, not a stub)"]
    }

    fn fault_kinds(&self) -> Vec<&'static str> {
        vec![
            "refused.put",
            "refused.put_digit_at",
            "refused.fput",
            "refused.shift",
            "refused.frozen",
            "refused.shift.implicit_one",
            "refused.put.zero_after_digit",
        ]
    }
}

fn count_refusal(stats: &mut Stats, op: &Op, before: &Model) {
    if before.frozen {
        stats.hit("refused.frozen");
    }
    match op {
        Op::Put(x) => {
            stats.hit("refused.put");
            if x == "0" && !before.d.is_empty() {
                stats.hit("refused.put.zero_after_digit");
            }
        }
        Op::PutDigitAt(..) => stats.hit("refused.put_digit_at"),
        Op::Fput(_) => stats.hit("refused.fput"),
        Op::Shift(p) => {
            stats.hit("refused.shift");
            if !before.frozen && before.l() > *p && before.d[..*p].iter().all(|&c| c == 0) {
                stats.hit("refused.shift.implicit_one");
            }
        }
        _ => {}
    }
}

fn count_ok(stats: &mut Stats, op: &Op, before: &Model) {
    if let Op::Shift(p) = op {
        if *p == 0 {
            return;
        }
        if before.d.is_empty() {
            stats.hit("probe.shift.empty_implicit_one");
        } else if before.l() <= *p {
            stats.hit("probe.shift.whole_number");
        } else if before.d[..*p].iter().all(|&c| c == 0) {
            stats.hit("probe.shift.subgroup_implicit_one_ok");
        } else {
            stats.hit("probe.shift.subgroup_ok");
        }
    }
    if let Op::Put(_) = op {
        if before.d.is_empty() && before.lz > 0 {
            stats.hit("probe.put.in_leading_zero_state");
        }
    }
}
