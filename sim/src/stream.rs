//! Seeded generation of token streams and texts from the per-language pools (swarm style:
//! every run draws its own class weights), and the simulator-owned token type.

use std::cell::{Cell, RefCell};

use serde::{Deserialize, Serialize};
use text2num::Token;

use crate::pools::{Pool, GLUE, PUNCT};
use crate::rng::Rng;

#[derive(Clone, Debug, Serialize, Deserialize, PartialEq)]
pub struct TokSpec {
    pub text: String,
    pub lower: String,
    #[serde(default, skip_serializing_if = "is_false")]
    pub separated: bool,
    #[serde(default, skip_serializing_if = "is_false")]
    pub nan: bool,
}

fn is_false(b: &bool) -> bool {
    !*b
}

impl TokSpec {
    pub fn word(w: &str) -> TokSpec {
        TokSpec { text: w.to_string(), lower: w.to_lowercase(), separated: false, nan: false }
    }
    pub fn is_glue(&self) -> bool {
        is_glue_text(&self.text)
    }
}

/// Tokens the scanner treats as transparent before it looks at anything else.
pub fn is_glue_text(t: &str) -> bool {
    t == "-" || t.chars().all(char::is_whitespace)
}

pub const N_CLASSES: usize = 18;
const BASE_WEIGHTS: [u32; N_CLASSES] = [
    4,  // 0 zero
    14, // 1 units
    6,  // 2 teens
    10, // 3 tens
    7,  // 4 hundreds
    7,  // 5 mults
    6,  // 6 ordinals
    7,  // 7 conj
    4,  // 8 decsep
    5,  // 9 linking
    10, // 10 content
    4,  // 11 ambiguous
    5,  // 12 composite
    6,  // 13 punct
    0,  // 14 glue (handled separately)
    8,  // 15 structured number phrase
    9,  // 16 any word of the language's harvested number vocabulary (rare words, inflections, variants)
    3,  // 17 any word of the language's harvested linking-word list
];

#[derive(Clone, Debug)]
pub struct GenCfg {
    pub w: [u32; N_CLASSES],
    pub glue_pct: u32,
    pub upper_pct: u32,
    pub display_pct: u32,
}

impl GenCfg {
    pub fn swarm(rng: &mut Rng) -> GenCfg {
        let mut w = [0u32; N_CLASSES];
        for i in 0..N_CLASSES {
            w[i] = if BASE_WEIGHTS[i] == 0 || rng.chance(1, 5) { 0 } else { 1 + rng.below(2 * BASE_WEIGHTS[i] as usize) as u32 };
        }
        if w.iter().all(|&x| x == 0) {
            w[1] = 1;
        }
        GenCfg {
            w,
            glue_pct: *rng.pick(&[0u32, 0, 0, 30, 100]),
            upper_pct: *rng.pick(&[0u32, 0, 0, 10, 50]),
            display_pct: *rng.pick(&[0u32, 0, 0, 0, 15]),
        }
    }
}

fn pick_or<'a>(rng: &mut Rng, xs: &'a [&'static str], fallback: &'a [&'static str]) -> &'static str {
    if xs.is_empty() {
        rng.word(fallback)
    } else {
        rng.word(xs)
    }
}

/// A plausible spelled number as a word sequence (not necessarily valid: validity is the
/// library's business, the simulator only needs in-flight parser state).
pub fn gen_number_phrase(rng: &mut Rng, p: &Pool, out: &mut Vec<&'static str>) {
    if rng.chance(1, 5) {
        // two or three arbitrary words of the harvested vocabulary in a row (specific neighbours)
        let v = crate::vocab::vocab(lang_index(p));
        if !v.is_empty() {
            for _ in 0..rng.range(2, 3) {
                out.push(rng.word(v));
            }
            return;
        }
    }
    if rng.chance(1, 14) {
        // a decimal separator word of ANOTHER language between two numbers
        let other = &crate::pools::POOLS[(lang_index(p) + 1 + rng.below(6)) % 7];
        out.push(if rng.chance(1, 2) { rng.word(p.units) } else { rng.word(p.tens) });
        out.push(rng.word(other.decsep));
        out.push(rng.word(p.units));
        return;
    }
    let pairs = crate::vocab::link_pairs(lang_index(p));
    if !pairs.is_empty() && rng.chance(1, 14) {
        // the second word of a two-word vocabulary entry between two small numbers
        out.push(rng.word(p.units));
        out.push(pairs[rng.below(pairs.len())].1);
        out.push(rng.word(p.units));
        return;
    }
    match rng.below(8) {
        0 => {
            // run of zeros then a small number
            for _ in 0..rng.range(1, 3) {
                out.push(rng.word(p.zero));
            }
            out.push(rng.word(p.units));
        }
        1 => {
            // tens [conj] unit
            out.push(rng.word(p.tens));
            if rng.chance(1, 2) {
                out.push(rng.word(p.conj));
            }
            out.push(rng.word(p.units));
        }
        2 => {
            // unit hundred [conj] tens unit
            if rng.chance(2, 3) {
                out.push(rng.word(p.units));
            }
            out.push(rng.word(p.hundreds));
            if rng.chance(1, 3) {
                out.push(rng.word(p.conj));
            }
            if rng.chance(2, 3) {
                out.push(rng.word(p.tens));
            }
            if rng.chance(1, 2) {
                out.push(rng.word(p.units));
            }
        }
        3 => {
            // x thousand y
            out.push(if rng.chance(1, 2) { rng.word(p.units) } else { rng.word(p.teens) });
            out.push(rng.word(p.mults));
            if rng.chance(1, 2) {
                out.push(rng.word(p.hundreds));
            }
            if rng.chance(1, 2) {
                out.push(rng.word(p.tens));
            }
        }
        4 => {
            // decimal: int sep frac
            out.push(if rng.chance(1, 2) { rng.word(p.units) } else { rng.word(p.tens) });
            out.push(rng.word(p.decsep));
            for _ in 0..rng.range(0, 2) {
                out.push(rng.word(p.zero));
            }
            for _ in 0..rng.range(1, 3) {
                out.push(rng.word(p.units));
            }
        }
        5 => {
            // ordinal, possibly compound
            if rng.chance(1, 2) {
                out.push(rng.word(p.tens));
            }
            out.push(rng.word(p.ordinals));
        }
        6 => {
            // dictated digits
            for _ in 0..rng.range(2, 5) {
                out.push(if rng.chance(1, 4) { rng.word(p.zero) } else { rng.word(p.units) });
            }
        }
        _ => {
            out.push(pick_or(rng, p.composite, p.teens));
            if rng.chance(1, 3) {
                out.push(rng.word(p.mults));
            }
        }
    }
}

/// Agglutinated number words for the languages that write numbers as one word
/// (de, nl, it): units+hundreds, tens, ordinals glued together, as a single token.
/// A whole six-digit number written as ONE token (60-80 bytes): the languages that agglutinate,
/// and hyphen chains for French and English.
pub fn gen_long_compound(rng: &mut Rng, p: &Pool) -> String {
    let u = |rng: &mut Rng| rng.word(p.units);
    match p.code {
        "de" => {
            let u: [&str; 4] = [rng.word(&["zwei", "drei", "vier", "fünf", "sechs", "sieben", "acht", "neun"]); 4];
            let t = rng.word(&["zwanzig", "dreißig", "vierzig", "fünfzig", "sechzig", "siebzig", "achtzig", "neunzig"]);
            format!("{}hundert{}und{}tausend{}hundert{}und{}", u[0], u[1], t, u[2], u[3], t)
        }
        "nl" => {
            let a = rng.word(&["twee", "drie", "vier", "vijf", "zes", "zeven", "acht", "negen"]);
            let t = rng.word(&["twintig", "dertig", "veertig", "vijftig", "zestig", "zeventig", "tachtig", "negentig"]);
            format!("{a}honderd{a}en{t}duizend{a}honderd{a}en{t}")
        }
        "it" => {
            let a = rng.word(&["due", "tre", "quattro", "cinque", "sei", "sette", "nove"]);
            let t = rng.word(&["venti", "trenta", "quaranta", "cinquanta", "sessanta", "settanta", "novanta"]);
            format!("{a}cento{t}{a}mila{a}cento{t}{a}")
        }
        "fr" => {
            let a = rng.word(&["deux", "trois", "quatre", "cinq", "six", "sept", "huit", "neuf"]);
            format!("{a}-cent-quatre-vingt-dix-{a}-mille-{a}-cent-quatre-vingt-dix-{a}")
        }
        "en" => {
            let a = rng.word(&["two", "three", "four", "five", "six", "seven", "eight", "nine"]);
            let t = rng.word(&["twenty", "thirty", "forty", "fifty", "sixty", "seventy", "eighty", "ninety"]);
            format!("{a}-hundred-{t}-{a}-thousand-{a}-hundred-{t}-{a}")
        }
        _ => format!("{}-{}", u(rng), u(rng)),
    }
}

pub fn gen_compound(rng: &mut Rng, p: &Pool) -> String {
    if rng.chance(1, 6) {
        return gen_long_compound(rng, p);
    }
    if rng.chance(1, 8) {
        // a compound made only of zero words
        let z = rng.word(p.zero);
        let z2 = rng.word(p.zero);
        return match p.code {
            "de" => format!("{z}und{z2}"),
            "nl" => format!("{z}en{z2}"),
            "it" => format!("{z}{z2}"),
            _ => format!("{z}-{z2}"),
        };
    }
    if rng.chance(1, 8) {
        // a compound cut right after its connector (or with a dangling hyphen)
        let u = rng.word(p.units);
        return match p.code {
            "de" => format!("{u}und"),
            "nl" => format!("{u}en"),
            "fr" => format!("{}-et", rng.word(p.tens)),
            "it" => format!("{}cento", u),
            _ => format!("{}-", rng.word(p.tens)),
        };
    }
    let mut s = String::new();
    match p.code {
        "de" | "nl" => {
            let conj = if p.code == "de" { "und" } else { "en" };
            if rng.chance(1, 2) {
                s.push_str(rng.word(p.units));
                s.push_str(rng.word(p.hundreds));
            }
            if rng.chance(1, 2) {
                s.push_str(rng.word(p.units));
                s.push_str(conj);
                s.push_str(rng.word(p.tens));
            } else {
                s.push_str(rng.word(p.teens));
            }
            if rng.chance(1, 3) {
                s.push_str(rng.word(p.mults));
            }
            if rng.chance(1, 3) {
                s.push_str(if p.code == "de" { "ste" } else { "ste" });
            }
        }
        "it" => {
            if rng.chance(1, 2) {
                s.push_str(rng.word(&["due", "tre", "quattro", "cinque", "sei", "sette", "otto", "nove"]));
            }
            s.push_str(rng.word(&["cento", "mila", "cento", "venti", "trenta", "quaranta", "novanta", "centesimo", "millesimo", "ventesimo", "milionesimo"]));
            if rng.chance(1, 2) {
                s.push_str(rng.word(&["due", "tre", "quattro", "cinque", "sei", "sette", "nove", "dieci", "venti", "esimo", "esima"]));
            }
        }
        _ => {
            s.push_str(rng.word(p.tens));
            s.push('-');
            s.push_str(rng.word(p.units));
        }
    }
    s
}

fn case_variant(rng: &mut Rng, w: &str, upper_pct: u32) -> String {
    if upper_pct > 0 && rng.chance(upper_pct, 100) {
        if rng.chance(1, 2) {
            w.to_uppercase()
        } else {
            let mut c = w.chars();
            match c.next() {
                Some(f) => f.to_uppercase().collect::<String>() + c.as_str(),
                None => String::new(),
            }
        }
    } else {
        w.to_string()
    }
}

fn lang_index(p: &Pool) -> usize {
    crate::pools::LANG_CODES.iter().position(|c| *c == p.code).unwrap_or(0)
}

/// Word-level stream (words and punctuation, optional glue tokens in between).
pub fn gen_stream(rng: &mut Rng, p: &Pool, cfg: &GenCfg, target_len: usize) -> Vec<TokSpec> {
    let mut words: Vec<&'static str> = Vec::with_capacity(target_len + 8);
    // generated (non-static) words are parked in `owned`; "\u{1}" marks their place
    let mut owned: Vec<String> = vec![];
    while words.len() < target_len {
        match rng.weighted(&cfg.w) {
            0 => words.push(rng.word(p.zero)),
            1 => words.push(rng.word(p.units)),
            2 => words.push(rng.word(p.teens)),
            3 => words.push(rng.word(p.tens)),
            4 => words.push(rng.word(p.hundreds)),
            5 => words.push(rng.word(p.mults)),
            6 => words.push(rng.word(p.ordinals)),
            7 => words.push(rng.word(p.conj)),
            8 => words.push(rng.word(p.decsep)),
            9 => words.push(rng.word(p.linking)),
            10 => words.push(rng.word(p.content)),
            11 => words.push(rng.word(p.ambiguous)),
            12 => {
                if rng.chance(1, 3) {
                    owned.push(gen_compound(rng, p));
                    words.push("\u{1}");
                } else {
                    words.push(pick_or(rng, p.composite, p.tens))
                }
            }
            13 => words.push(rng.word(&PUNCT)),
            15 => gen_number_phrase(rng, p, &mut words),
            16 => {
                let v = crate::vocab::vocab(lang_index(p));
                words.push(if v.is_empty() { rng.word(p.units) } else { rng.word(v) })
            }
            17 => {
                let v = crate::vocab::linking(lang_index(p));
                words.push(if v.is_empty() { rng.word(p.linking) } else { rng.word(v) })
            }
            _ => words.push(rng.word(p.content)),
        }
    }
    words.truncate(target_len);
    let mut out = Vec::with_capacity(words.len() * 2);
    let mut next_owned = 0usize;
    for (i, w) in words.iter().enumerate() {
        if i > 0 && cfg.glue_pct > 0 && rng.chance(cfg.glue_pct, 100) {
            // usually one glue token, sometimes a run of them
            let k = *rng.pick(&[1usize, 1, 1, 1, 2, 2, 3, 5]);
            for _ in 0..k {
                let g = rng.word(&GLUE);
                out.push(TokSpec { text: g.to_string(), lower: g.to_string(), separated: false, nan: false });
            }
        }
        let w: &str = if *w == "\u{1}" {
            next_owned += 1;
            owned.get(next_owned - 1).map(|s| s.as_str()).unwrap_or("x")
        } else {
            w
        };
        let text = case_variant(rng, w, cfg.upper_pct);
        let lower = text.to_lowercase();
        // display form vs normalised form (ASR tokens): text() may carry more than case
        // a token normalised to nothing (noise markers such as [breath]) keeps its display text
        let lower = if cfg.display_pct > 0 && rng.chance(cfg.display_pct, 600) { rng.word(&["", " ", "-"]).to_string() } else { lower };
        let text = if cfg.display_pct > 0 && rng.chance(cfg.display_pct, 100) {
            if rng.chance(1, 8) {
                // a very long display form (e.g. markup kept on the token)
                format!("{}{}", text, "·".repeat(rng.range(30, 140)))
            } else if rng.chance(1, 6) {
                // a display form that is not the same word at all (translation, digits, symbol)
                rng.word(&["twenty", "vingt", "zwanzig", "20", "and", "et", "und", "%", "N°", "ok", "-x-", "o"]).to_string()
            } else {
                format!("{}{}", text, rng.word(&[",", ".", "!", "…", " ", "’s", ")"]))
            }
        } else {
            text
        };
        out.push(TokSpec { lower, text, separated: false, nan: false });
    }
    out
}

/// Event log of one simulated run: the simulator's total order of seam crossings.
#[derive(Default)]
pub struct Log {
    pub seq: Cell<u64>,
    pub fp: Cell<u64>,
    pub pulls: Cell<usize>,
    pub eof_seen: Cell<usize>,
    pub text_reads: Cell<u64>,
    pub sep_queries: RefCell<Vec<(usize, usize)>>, // (token id, previous id shown)
    pub nan_queries: Cell<u64>,
    /// inside a consumer request?
    pub in_request: Cell<bool>,
    pub pulls_outside_request: Cell<usize>,
    /// client-crash fault: the seam crossing with this sequence number panics (0 = never)
    pub crash_at: Cell<u64>,
    /// hand control to the deterministic scheduler at every seam crossing
    pub yield_on: Cell<bool>,
}

impl Log {
    pub fn new() -> Log {
        Log { fp: Cell::new(0xcbf2_9ce4_8422_2325), ..Default::default() }
    }
    #[inline]
    pub fn ev(&self, kind: u64, a: u64) {
        self.seq.set(self.seq.get() + 1);
        if self.yield_on.get() {
            crate::sched::sched_yield(100 + kind as u32);
        }
        if self.seq.get() == self.crash_at.get() {
            panic!("injected client crash at seam crossing {}", self.seq.get());
        }
        let mut h = self.fp.get();
        h ^= kind.wrapping_mul(0x9E37_79B9_7F4A_7C15) ^ a;
        h = h.wrapping_mul(0x100_0000_01b3).rotate_left(29);
        self.fp.set(h);
    }
}

pub const EV_PULL: u64 = 1;
pub const EV_EOF: u64 = 2;
pub const EV_TEXT: u64 = 3;
pub const EV_LOWER: u64 = 4;
pub const EV_SEP: u64 = 5;
pub const EV_NAN: u64 = 6;
pub const EV_NEXT: u64 = 7;
pub const EV_GOT: u64 = 8;
pub const EV_REPLACE: u64 = 9;
pub const EV_DROP: u64 = 10;

/// The simulator-owned token: every trait method is a seam that records an event.
pub struct Tk<'a> {
    pub id: usize,
    pub spec: &'a TokSpec,
    pub log: &'a Log,
}

impl Token for Tk<'_> {
    fn text(&self) -> &str {
        self.log.ev(EV_TEXT, self.id as u64);
        self.log.text_reads.set(self.log.text_reads.get() + 1);
        &self.spec.text
    }
    fn text_lowercase(&self) -> &str {
        self.log.ev(EV_LOWER, self.id as u64);
        &self.spec.lower
    }
    fn nt_separated(&self, previous: &Self) -> bool {
        self.log.ev(EV_SEP, ((self.id as u64) << 20) | previous.id as u64);
        self.log.sep_queries.borrow_mut().push((self.id, previous.id));
        self.spec.separated
    }
    fn not_a_number_part(&self) -> bool {
        self.log.ev(EV_NAN, self.id as u64);
        self.log.nan_queries.set(self.log.nan_queries.get() + 1);
        self.spec.nan
    }
}

/// The simulator-owned source: logs every pull, ends where the run says it ends, fused.
pub struct SimSource<'a> {
    pub toks: &'a [TokSpec],
    pub next: usize,
    pub log: &'a Log,
    /// the source advertises its exact remaining length through `size_hint` (like a slice or Vec
    /// iterator would); otherwise the default `(0, None)`
    pub exact_size: bool,
}

impl<'a> Iterator for SimSource<'a> {
    type Item = Tk<'a>;
    fn next(&mut self) -> Option<Tk<'a>> {
        if !self.log.in_request.get() {
            self.log.pulls_outside_request.set(self.log.pulls_outside_request.get() + 1);
        }
        if self.next < self.toks.len() {
            let id = self.next;
            self.next += 1;
            self.log.ev(EV_PULL, id as u64);
            self.log.pulls.set(self.log.pulls.get() + 1);
            Some(Tk { id, spec: &self.toks[id], log: self.log })
        } else {
            self.log.ev(EV_EOF, 0);
            self.log.eof_seen.set(self.log.eof_seen.get() + 1);
            None
        }
    }

    fn size_hint(&self) -> (usize, Option<usize>) {
        if self.exact_size {
            let n = self.toks.len() - self.next;
            (n, Some(n))
        } else {
            (0, None)
        }
    }
}

/// Canonical form of an occurrence for comparisons (value by bits, NaN-safe).
#[derive(Clone, Debug, PartialEq, Eq, Serialize, Deserialize)]
pub struct Occ {
    pub start: usize,
    pub end: usize,
    pub text: String,
    pub value_bits: u64,
    pub is_ordinal: bool,
}

impl From<text2num::Occurence> for Occ {
    fn from(o: text2num::Occurence) -> Occ {
        Occ { start: o.start, end: o.end, text: o.text, value_bits: o.value.to_bits(), is_ordinal: o.is_ordinal }
    }
}

pub fn fmt_occs(v: &[Occ]) -> String {
    let parts: Vec<String> = v
        .iter()
        .map(|o| format!("[{}..{} {:?}{}]", o.start, o.end, o.text, if o.is_ordinal { " ord" } else { "" }))
        .collect();
    parts.join(" ")
}

pub fn fmt_toks(v: &[TokSpec]) -> String {
    let parts: Vec<String> = v
        .iter()
        .map(|t| {
            format!(
                "{:?}{}{}",
                t.text,
                if t.separated { "(sep)" } else { "" },
                if t.nan { "(nan)" } else { "" }
            )
        })
        .collect();
    parts.join(" ")
}

/// A caller-supplied interpreter: delegates to a real one, counts every call into it, and
/// panics at a seeded call number (the "client crash mid-call" fault; `crash_at == 0` never).
pub struct CrashLang<'a, L: text2num::LangInterpreter> {
    pub inner: &'a L,
    pub calls: Cell<u64>,
    pub crash_at: u64,
    /// re-entrancy: every `reenter_every`-th callback makes a nested library call on the same
    /// thread (0 = never); the nested call must give what it gives on its own
    pub reenter_every: u64,
    nested_expected: Option<(String, String)>,
    pub reentrancy_mismatch: std::rc::Rc<Cell<bool>>,
    in_nested: Cell<bool>,
}

const NESTED_WORDS: &str = "3 twenty-one vingt-cinq einundzwanzig ventuno eenentwintig veinte vinte o neuf";

fn nested_calls<L: text2num::LangInterpreter>(l: &L) -> (String, String) {
    let a = match text2num::text2digits(NESTED_WORDS.split(' ').nth(1).unwrap_or("one"), l) {
        Ok(s) => s,
        Err(e) => format!("{e:?}"),
    };
    let b = text2num::replace_numbers_in_text(NESTED_WORDS, l, 0.0);
    (a, b)
}

impl<'a, L: text2num::LangInterpreter> CrashLang<'a, L> {
    pub fn new(inner: &'a L, crash_at: u64) -> Self {
        Self::with_reentry(inner, crash_at, 0, std::rc::Rc::new(Cell::new(false)))
    }
    pub fn with_reentry(inner: &'a L, crash_at: u64, reenter_every: u64, flag: std::rc::Rc<Cell<bool>>) -> Self {
        // what the nested calls give when they are not nested
        let nested_expected = if reenter_every > 0 { Some(nested_calls(inner)) } else { None };
        CrashLang {
            inner,
            calls: Cell::new(0),
            crash_at,
            reenter_every,
            nested_expected,
            reentrancy_mismatch: flag,
            in_nested: Cell::new(false),
        }
    }
    #[inline]
    fn tick(&self) {
        if self.in_nested.get() {
            return;
        }
        let n = self.calls.get() + 1;
        self.calls.set(n);
        crate::sched::sched_yield(200);
        if n == self.crash_at {
            panic!("injected client crash in caller-supplied interpreter at call {n}");
        }
        if self.reenter_every > 0 && n % self.reenter_every == 0 {
            self.in_nested.set(true);
            let inner = self.inner;
            let got = std::panic::catch_unwind(std::panic::AssertUnwindSafe(|| nested_calls(inner)));
            self.in_nested.set(false);
            match (got, &self.nested_expected) {
                (Ok(g), Some(e)) if &g == e => {}
                _ => self.reentrancy_mismatch.set(true),
            }
        }
    }
}

impl<L: text2num::LangInterpreter> text2num::LangInterpreter for CrashLang<'_, L> {
    fn apply(&self, w: &str, b: &mut text2num::digit_string::DigitString) -> Result<(), text2num::error::Error> {
        self.tick();
        self.inner.apply(w, b)
    }
    fn apply_decimal(&self, w: &str, b: &mut text2num::digit_string::DigitString) -> Result<(), text2num::error::Error> {
        self.tick();
        self.inner.apply_decimal(w, b)
    }
    fn get_morph_marker(&self, word: &str) -> text2num::lang::MorphologicalMarker {
        self.tick();
        self.inner.get_morph_marker(word)
    }
    fn is_decimal_sep(&self, word: &str) -> bool {
        self.tick();
        self.inner.is_decimal_sep(word)
    }
    fn format_and_value(&self, b: &text2num::digit_string::DigitString) -> (String, f64) {
        self.tick();
        self.inner.format_and_value(b)
    }
    fn format_decimal_and_value(
        &self,
        int: &text2num::digit_string::DigitString,
        dec: &text2num::digit_string::DigitString,
    ) -> (String, f64) {
        self.tick();
        self.inner.format_decimal_and_value(int, dec)
    }
    fn is_linking(&self, word: &str) -> bool {
        self.tick();
        self.inner.is_linking(word)
    }
    fn basic_annotate<T: text2num::BasicAnnotate>(&self, tokens: &mut Vec<T>) {
        self.tick();
        self.inner.basic_annotate(tokens)
    }
}
