//! Vocabulary harvested from the tree under test by build.rs.
include!(concat!(env!("OUT_DIR"), "/vocab.rs"));
