//! Deterministic scheduler over *real* OS threads: exactly one simulated caller thread runs
//! at a time; at every intercepted point (token/iterator/replace/interpreter callbacks and
//! the library's `verif::yield_point` sites) the running thread asks the scheduler who
//! runs next, and the answer comes from the run's PRNG (or from a recorded trace on
//! replay). Real threads keep real `thread_local!` semantics, which a coroutine-based
//! scheduler would not (all its tasks share one OS thread's TLS).
//!
//! A thread that does not reach an intercepted point within `WATCHDOG` while it is the
//! only one allowed to run is presumed blocked on a lock the scheduler cannot see (held
//! by a parked thread); another parked thread is then released. That window is
//! uncontrolled and counted in the report.

use std::cell::RefCell;
use std::collections::BTreeMap;
use std::sync::{Arc, Condvar, Mutex};
use std::time::Duration;

use crate::rng::Rng;

const WATCHDOG: Duration = Duration::from_millis(1500);

#[derive(Clone, Copy, Debug, PartialEq, Eq)]
pub enum Policy {
    /// uniform choice at every point
    Random,
    /// stay on the current thread with probability 1 - 1/p
    Sticky(u32),
    /// PCT-style: random priorities, `depth` priority change points
    Pct(u32),
}

impl Policy {
    pub fn from_code(c: u8) -> Policy {
        match c {
            0 => Policy::Random,
            1 => Policy::Sticky(4),
            2 => Policy::Sticky(16),
            3 => Policy::Pct(1),
            4 => Policy::Pct(3),
            _ => Policy::Sticky(64),
        }
    }
}

struct St {
    /// all simulated threads have arrived and the first turn has been handed out
    started: bool,
    entered: usize,
    current: Option<usize>,
    parked: Vec<bool>,
    finished: Vec<bool>,
    blocked: Vec<bool>,
    rng: Rng,
    policy: Policy,
    replay: Option<Vec<u8>>,
    replay_pos: usize,
    trace: Vec<u8>,
    steps: u64,
    switches: u64,
    site_hits: BTreeMap<u32, u64>,
    uncontrolled: u64,
    prio: Vec<u32>,
    change_points: Vec<u64>,
}

pub struct Sched {
    st: Mutex<St>,
    cv: Condvar,
}

#[derive(Clone, Debug, Default)]
pub struct SchedReport {
    pub trace: Vec<u8>,
    pub steps: u64,
    pub switches: u64,
    pub site_hits: BTreeMap<u32, u64>,
    pub uncontrolled: u64,
}

thread_local! {
    static CTX: RefCell<Option<(Arc<Sched>, usize)>> = const { RefCell::new(None) };
}

/// Called from every seam; a no-op outside a simulated thread.
pub fn sched_yield(site: u32) {
    // try_with: calls are also made from thread-local destructors during thread teardown
    let ctx = CTX.try_with(|c| c.borrow().clone()).ok().flatten();
    if let Some((s, i)) = ctx {
        s.yield_now(i, site);
    }
}

/// The callback installed into the library's `verif::yield_point`.
pub fn lib_hook(site: u32) {
    sched_yield(site)
}

impl St {
    fn candidates(&self) -> Vec<usize> {
        (0..self.parked.len()).filter(|&i| self.parked[i] && !self.finished[i]).collect()
    }

    fn choose(&mut self, cur: Option<usize>) -> Option<usize> {
        let cands = self.candidates();
        if cands.is_empty() {
            return None;
        }
        let pick = if let Some(rep) = &self.replay {
            let want = rep.get(self.replay_pos).map(|&b| b as usize);
            self.replay_pos += 1;
            match want {
                Some(w) if cands.contains(&w) => w,
                _ => cands[0],
            }
        } else {
            match self.policy {
                Policy::Random => cands[self.rng.below(cands.len())],
                Policy::Sticky(p) => match cur {
                    Some(c) if cands.contains(&c) && !self.rng.chance(1, p) => c,
                    _ => cands[self.rng.below(cands.len())],
                },
                Policy::Pct(_) => {
                    if let Some(c) = cur {
                        if self.change_points.contains(&self.steps) {
                            let low = self.prio.iter().copied().min().unwrap_or(0);
                            self.prio[c] = low.saturating_sub(1);
                        }
                    }
                    *cands.iter().max_by_key(|&&i| self.prio[i]).unwrap()
                }
            }
        };
        self.trace.push(pick as u8);
        Some(pick)
    }
}

impl Sched {
    pub fn new(n: usize, policy: Policy, seed: u64, replay: Option<Vec<u8>>, expected_steps: u64) -> Arc<Sched> {
        let mut rng = Rng::new(seed);
        let mut prio: Vec<u32> = (0..n as u32).map(|i| 1000 + i).collect();
        // random permutation of priorities
        for i in (1..n).rev() {
            let j = rng.below(i + 1);
            prio.swap(i, j);
        }
        let mut change_points = vec![];
        if let Policy::Pct(d) = policy {
            for _ in 0..d {
                change_points.push(1 + rng.below(expected_steps.max(2) as usize) as u64);
            }
        }
        Arc::new(Sched {
            st: Mutex::new(St {
                started: false,
                entered: 0,
                current: None,
                parked: vec![false; n],
                finished: vec![false; n],
                blocked: vec![false; n],
                rng,
                policy,
                replay,
                replay_pos: 0,
                trace: vec![],
                steps: 0,
                switches: 0,
                site_hits: BTreeMap::new(),
                uncontrolled: 0,
                prio,
                change_points,
            }),
            cv: Condvar::new(),
        })
    }

    fn wait_for_turn<'a>(&'a self, mut st: std::sync::MutexGuard<'a, St>, i: usize) {
        let mut seen_steps = st.steps;
        let mut seen_cur = st.current;
        loop {
            if st.current == Some(i) {
                st.parked[i] = false;
                return;
            }
            let (g, to) = self.cv.wait_timeout(st, WATCHDOG).unwrap();
            st = g;
            if st.current == Some(i) {
                st.parked[i] = false;
                return;
            }
            if to.timed_out() && st.started {
                if st.steps == seen_steps && st.current == seen_cur {
                    // the running thread made no progress: presume it is blocked on a lock
                    // held by a parked thread and release someone else
                    if let Some(c) = st.current {
                        if !st.finished[c] && !st.parked[c] {
                            st.blocked[c] = true;
                            st.uncontrolled += 1;
                            let next = st.choose(None);
                            st.current = next;
                            self.cv.notify_all();
                        }
                    } else {
                        let next = st.choose(None);
                        st.current = next;
                        self.cv.notify_all();
                    }
                }
                seen_steps = st.steps;
                seen_cur = st.current;
            }
        }
    }

    fn yield_now(&self, i: usize, site: u32) {
        let mut st = self.st.lock().unwrap();
        st.steps += 1;
        *st.site_hits.entry(site).or_insert(0) += 1;
        if st.blocked[i] {
            // presumed blocked earlier; someone else owns the turn now
            st.blocked[i] = false;
            st.parked[i] = true;
            self.wait_for_turn(st, i);
            return;
        }
        st.parked[i] = true;
        let next = st.choose(Some(i)).unwrap_or(i);
        st.current = Some(next);
        if next == i {
            st.parked[i] = false;
            return;
        }
        st.switches += 1;
        self.cv.notify_all();
        self.wait_for_turn(st, i);
    }

    fn enter(&self, i: usize) {
        let mut st = self.st.lock().unwrap();
        st.parked[i] = true;
        st.entered += 1;
        self.cv.notify_all();
        self.wait_for_turn(st, i);
    }

    fn finish(&self, i: usize) {
        let mut st = self.st.lock().unwrap();
        st.finished[i] = true;
        st.parked[i] = false;
        if st.blocked[i] {
            st.blocked[i] = false;
            return;
        }
        let next = st.choose(None);
        st.current = next;
        self.cv.notify_all();
    }

    /// Run the simulated threads to completion under this scheduler.
    pub fn run<'a>(self: &Arc<Sched>, fns: Vec<Box<dyn FnOnce() + Send + 'a>>) -> SchedReport {
        let n = fns.len();
        std::thread::scope(|scope| {
            for (i, f) in fns.into_iter().enumerate() {
                let s = self.clone();
                std::thread::Builder::new()
                    .stack_size(512 * 1024)
                    .spawn_scoped(scope, move || {
                        CTX.with(|c| *c.borrow_mut() = Some((s.clone(), i)));
                        s.enter(i);
                        // a panic escaping `f` would leave the others parked forever
                        let _ = std::panic::catch_unwind(std::panic::AssertUnwindSafe(f));
                        CTX.with(|c| *c.borrow_mut() = None);
                        s.finish(i);
                    })
                    .expect("spawn simulated thread");
            }
            // start: wait until every thread is parked, then hand out the first turn
            let mut st = self.st.lock().unwrap();
            while st.entered < n {
                st = self.cv.wait(st).unwrap();
            }
            let first = st.choose(None);
            st.current = first;
            st.started = true;
            self.cv.notify_all();
            drop(st);
        });
        let st = self.st.lock().unwrap();
        SchedReport {
            trace: st.trace.clone(),
            steps: st.steps,
            switches: st.switches,
            site_hits: st.site_hits.clone(),
            uncontrolled: st.uncontrolled,
        }
    }
}
