//! C14 layer (a): "interpreters can be sent to and shared between threads".
//! This program only has to compile.
use text2num::lang::{Dutch, English, French, German, Italian, Portuguese, Spanish};
use text2num::Language;

fn send_sync<T: Send + Sync>() {}

fn main() {
    send_sync::<Language>();
    send_sync::<German>();
    send_sync::<English>();
    send_sync::<Spanish>();
    send_sync::<French>();
    send_sync::<Italian>();
    send_sync::<Dutch>();
    send_sync::<Portuguese>();
    // and actually do it once
    let l = std::sync::Arc::new(Language::english());
    let l2 = l.clone();
    let h = std::thread::spawn(move || text2num::text2digits("twenty one", &*l2));
    let a = text2num::text2digits("twenty one", &*l);
    let b = h.join().unwrap();
    assert_eq!(a.ok(), b.ok());
}
