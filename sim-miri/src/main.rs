//! C14 layer (d): the same kind of workload with real `std::thread`s, run under Miri.
//! Miri's scheduler is deterministic per seed (-Zmiri-seed / -Zmiri-many-seeds), preempts
//! at basic-block granularity and reports data races and undefined behaviour in the
//! library and its dependencies. Hooks off: only shipped code runs here.
//!
//! Every result obtained concurrently on SHARED interpreters must equal the result
//! obtained sequentially before any other thread was started. Exit code 1 and a line
//! `MIRI-MISMATCH ...` otherwise.
use std::sync::Arc;

use text2num::lang::{Dutch, German, Italian};
use text2num::{
    find_numbers, find_numbers_iter, replace_numbers_in_stream, replace_numbers_in_text, text2digits, Language,
    Replace, Token,
};

struct W(String);
impl Token for &W {
    fn text(&self) -> &str {
        &self.0
    }
    fn text_lowercase(&self) -> &str {
        &self.0
    }
}
impl Replace for W {
    fn replace<I: Iterator<Item = Self>>(replaced: I, data: String) -> Self {
        W(format!("{data}<{}>", replaced.count()))
    }
}
struct S<'a>(&'a str, bool);
impl Token for S<'_> {
    fn text(&self) -> &str {
        self.0
    }
    fn text_lowercase(&self) -> &str {
        self.0
    }
    fn nt_separated(&self, _p: &Self) -> bool {
        self.1
    }
}

#[derive(Clone, Copy)]
enum Call {
    T2d(usize, &'static str),
    Rewrite(usize, &'static str, f64),
    /// find_numbers / find_numbers_iter (2 requests, then dropped) / replace_numbers_in_stream
    Stream(usize, &'static str, f64),
}

const CALLS: &[Call] = &[
    Call::T2d(0, "neunzehnhundertdreiundsiebzig"),
    Call::T2d(0, "fünfundachtzig"),
    Call::T2d(0, "dreiundvierzigste"),
    Call::T2d(1, "negenenzeventig"),
    Call::T2d(1, "honderdvijftien"),
    Call::T2d(1, "drieënvijftigste"),
    Call::T2d(2, "tremilaquattrocento"),
    Call::T2d(2, "duecentesima"),
    Call::T2d(2, "duecentesimo"),
    Call::Rewrite(0, "einundzwanzig Hunde und zweitausend Katzen", 10.0),
    Call::Rewrite(1, "eenentwintig honden en tweeduizend katten", 10.0),
    Call::Rewrite(2, "ventitré cani e duemilacento gatti", 0.0),
    Call::Rewrite(3, "twenty-five cows, o five, one two three", 10.0),
    Call::Rewrite(4, "le vingt neuf et un logement neuf, trente-et-un virgule zéro cinq", 0.0),
    Call::T2d(3, "one hundred fifty-seven"),
    Call::T2d(4, "quatre-vingt-dix-sept"),
    Call::T2d(5, "dos mil trescientos cuarenta y cinco"),
    Call::T2d(5, "vigésimo primero"),
    Call::T2d(6, "mil trezentos e vinte e cinco"),
    Call::T2d(6, "vigésima quarta"),
    Call::Rewrite(5, "tengo veinticinco vacas, doce coma cero cinco y un tercio", 10.0),
    Call::Rewrite(6, "tenho vinte e cinco vacas, doze vírgula zero cinco e a décima sexta", 10.0),
    Call::Stream(3, "i have two hundred and twenty dollars and one two |three point one four", 10.0),
    Call::Stream(4, "zéro neuf soixante |zéro six douze vingt et un", 3.0),
    Call::Stream(5, "uno dos |tres y ochenta y cinco", 0.0),
    Call::Stream(6, "um dois |três e oitenta e cinco mil", 0.0),
    Call::Stream(0, "ein und zwanzig |dreiundvierzigste hundert", 0.0),
    Call::Stream(1, "een en twintig |drieënvijftigste honderd", 0.0),
    Call::Stream(2, "ventuno |duecentesima mille", 0.0),
    Call::Rewrite(0, "zwei komma fünf und dreitausend", 0.0),
    Call::Rewrite(1, "twee komma vijf en drie duizend", 0.0),
    Call::Rewrite(2, "due virgola cinque e tremila", 0.0),
    Call::T2d(1, "twee duizend"),
    Call::T2d(0, "zwei millionen"),
    Call::T2d(2, "due milioni"),
];

/// Every caller thread also works on a builder of its own: builders are plain values and must not
/// influence each other through anything global.
fn private_builder_work(t: usize) -> String {
    use text2num::digit_string::DigitString;
    let mut out = String::new();
    for k in 0..6usize {
        let mut b = DigitString::new();
        let _ = b.put(if t % 2 == 0 { b"5" } else { b"42" });
        let _ = b.put_digit_at(b'1' + (k % 8) as u8, 2 + k + t % 3);
        let _ = b.shift(1 + k % 3);
        let _ = b.put_digit_at(b'7', 9 + k);
        let _ = b.fput(b"3");
        out.push_str(&b.to_string());
        out.push('|');
        // a growing run of leading zeros, rendered (shared formatting helpers must not be racy)
        let mut z = DigitString::new();
        for _ in 0..(33 + 4 * k + t) {
            let _ = z.put(b"0");
        }
        let _ = z.put(b"7");
        out.push_str(&format!("{}:{}|", z.len(), z.to_string()));
    }
    out
}

/// Only the interpreters a run needs are built: constructing the splitter automata is by far
/// the most expensive part under Miri.
struct Set {
    de: Option<German>,
    nl: Option<Dutch>,
    it: Option<Italian>,
    en: Language,
    fr: Language,
    es: Language,
    pt: Language,
}

fn stream_call<L: text2num::LangInterpreter>(l: &L, t: &str, thr: f64) -> String {
    let toks: Vec<S> = t.split(' ').map(|w| if let Some(r) = w.strip_prefix('|') { S(r, true) } else { S(w, false) }).collect();
    let all: Vec<String> = find_numbers(toks.iter().map(|s| S(s.0, s.1)), l, thr).iter().map(|o| format!("{}..{}:{}", o.start, o.end, o.text)).collect();
    let first2: Vec<String> = find_numbers_iter(toks.iter().map(|s| S(s.0, s.1)), l, thr).take(2).map(|o| o.text).collect();
    let words: Vec<W> = t.split(' ').map(|w| W(w.trim_start_matches('|').to_string())).collect();
    let out: Vec<String> = replace_numbers_in_stream(words, l, thr).into_iter().map(|w| w.0).collect();
    format!("{all:?} {first2:?} {out:?}")
}

impl Set {
    fn new(which: usize) -> Set {
        Set {
            de: (which == 0).then(German::new),
            nl: (which == 1).then(Dutch::new),
            it: (which == 2).then(Italian::new),
            en: Language::english(),
            fr: Language::french(),
            es: Language::spanish(),
            pt: Language::portuguese(),
        }
    }
    fn has(&self, c: Call) -> bool {
        let l = match c {
            Call::T2d(l, _) | Call::Rewrite(l, _, _) | Call::Stream(l, _, _) => l,
        };
        match l {
            0 => self.de.is_some(),
            1 => self.nl.is_some(),
            2 => self.it.is_some(),
            _ => true,
        }
    }
    fn run(&self, c: Call) -> String {
        match c {
            Call::T2d(0, t) => format!("{:?}", text2digits(t, self.de.as_ref().unwrap()).map_err(|e| format!("{e:?}"))),
            Call::T2d(1, t) => format!("{:?}", text2digits(t, self.nl.as_ref().unwrap()).map_err(|e| format!("{e:?}"))),
            Call::T2d(2, t) => format!("{:?}", text2digits(t, self.it.as_ref().unwrap()).map_err(|e| format!("{e:?}"))),
            Call::T2d(3, t) => format!("{:?}", text2digits(t, &self.en).map_err(|e| format!("{e:?}"))),
            Call::T2d(4, t) => format!("{:?}", text2digits(t, &self.fr).map_err(|e| format!("{e:?}"))),
            Call::T2d(5, t) => format!("{:?}", text2digits(t, &self.es).map_err(|e| format!("{e:?}"))),
            Call::T2d(_, t) => format!("{:?}", text2digits(t, &self.pt).map_err(|e| format!("{e:?}"))),
            Call::Stream(0, t, thr) => stream_call(self.de.as_ref().unwrap(), t, thr),
            Call::Stream(1, t, thr) => stream_call(self.nl.as_ref().unwrap(), t, thr),
            Call::Stream(2, t, thr) => stream_call(self.it.as_ref().unwrap(), t, thr),
            Call::Stream(3, t, thr) => stream_call(&self.en, t, thr),
            Call::Stream(4, t, thr) => stream_call(&self.fr, t, thr),
            Call::Stream(5, t, thr) => stream_call(&self.es, t, thr),
            Call::Stream(_, t, thr) => stream_call(&self.pt, t, thr),
            Call::Rewrite(0, t, thr) => replace_numbers_in_text(t, self.de.as_ref().unwrap(), thr),
            Call::Rewrite(1, t, thr) => replace_numbers_in_text(t, self.nl.as_ref().unwrap(), thr),
            Call::Rewrite(2, t, thr) => replace_numbers_in_text(t, self.it.as_ref().unwrap(), thr),
            Call::Rewrite(3, t, thr) => replace_numbers_in_text(t, &self.en, thr),
            Call::Rewrite(4, t, thr) => replace_numbers_in_text(t, &self.fr, thr),
            Call::Rewrite(5, t, thr) => replace_numbers_in_text(t, &self.es, thr),
            Call::Rewrite(_, t, thr) => replace_numbers_in_text(t, &self.pt, thr),
        }
    }
}

/// which = 4: every caller thread CONSTRUCTS its own interpreter (a different splitter language per
/// thread, through the `Language` facade and through the concrete type) at the same time as the
/// others, uses it, and the results are compared afterwards with what a later, sequential construction
/// gives: races in process-wide state touched by the constructors (shared caches of compiled automata,
/// lazily initialised tables) show up as a difference.
fn concurrent_construction(nthreads: usize) -> bool {
    fn work(lang: usize, facade: bool) -> String {
        let words: [&str; 3] = match lang {
            0 => ["einundzwanzig", "zweitausend", "dreiundvierzigste"],
            1 => ["eenentwintig", "tweeduizend", "drieënvijftigste"],
            _ => ["ventitré", "duemilacento", "duecentesima"],
        };
        let mut out = String::new();
        for w in words {
            let r = match (lang, facade) {
                (0, true) => text2digits(w, &Language::german()),
                (0, false) => text2digits(w, &German::new()),
                (1, true) => text2digits(w, &Language::dutch()),
                (1, false) => text2digits(w, &Dutch::new()),
                (_, true) => text2digits(w, &Language::italian()),
                (_, false) => text2digits(w, &Italian::new()),
            };
            out.push_str(&format!("{:?}|", r.map_err(|e| format!("{e:?}"))));
        }
        out
    }
    let barrier = Arc::new(std::sync::Barrier::new(nthreads));
    let handles: Vec<_> = (0..nthreads)
        .map(|t| {
            let barrier = barrier.clone();
            std::thread::spawn(move || {
                barrier.wait();
                (t, work(t % 3, t % 2 == 0))
            })
        })
        .collect();
    let mut failed = false;
    let mut got = vec![];
    for h in handles {
        match h.join() {
            Ok(x) => got.push(x),
            Err(_) => {
                println!("MIRI-MISMATCH a constructing thread panicked");
                failed = true;
            }
        }
    }
    for (t, g) in got {
        let later = work(t % 3, t % 2 == 0);
        if g != later {
            println!("MIRI-MISMATCH thread {t}: an interpreter constructed concurrently with others gave {g:?}, constructed later it gives {later:?}");
            failed = true;
        }
    }
    failed
}

fn main() {
    // argv: <nthreads> <rounds> <offset> <which splitter language: 0 de, 1 nl, 2 it>
    let args: Vec<String> = std::env::args().collect();
    let nthreads: usize = args.get(1).and_then(|s| s.parse().ok()).unwrap_or(3);
    let rounds: usize = args.get(2).and_then(|s| s.parse().ok()).unwrap_or(1);
    let offset: usize = args.get(3).and_then(|s| s.parse().ok()).unwrap_or(0);
    let which: usize = args.get(4).and_then(|s| s.parse().ok()).unwrap_or(0);
    // dense: only the short single-word calls (keeps the shared splitter busiest per unit of time)
    let dense: bool = args.get(5).map(|s| s == "dense").unwrap_or(false);
    if which == 4 {
        if concurrent_construction(nthreads.max(2)) {
            std::process::exit(1);
        }
        println!("MIRI-OK threads={nthreads} concurrent construction which=4");
        return;
    }
    // one set of interpreters, created once; the reference results are computed on it
    // sequentially before any other thread exists (history independence is the business of the
    // simulator's history layer; this layer is about interleavings)
    // NOTE: the shared set is first USED by the caller threads (so that races in lazily initialised
    // state on the first calls are reachable); the reference results come from a second, private set
    let shared = Arc::new(Set::new(which));
    let private = Set::new(which);
    // which 0..2: only the calls of that splitter language (keeps the shared splitter busy);
    // which 3: the four languages without a splitter, all entry points
    let lang_of = |c: Call| match c {
        Call::T2d(l, _) | Call::Rewrite(l, _, _) | Call::Stream(l, _, _) => l,
    };
    let calls: Vec<Call> = CALLS
        .iter()
        .copied()
        .filter(|&c| shared.has(c) && (which >= 3 || lang_of(c) == which) && (!dense || matches!(c, Call::T2d(..))))
        .collect();
    let expected: Vec<String> = calls.iter().map(|&c| private.run(c)).collect();
    drop(private);
    let expected = Arc::new(expected);
    let calls = Arc::new(calls);
    let mut handles = vec![];
    for t in 0..nthreads {
        let shared = shared.clone();
        let expected = expected.clone();
        let calls = calls.clone();
        handles.push(std::thread::spawn(move || {
            let mut bad = vec![];
            // the private builder work is compared after all threads have finished, with what the same
            // work gives single-threaded (computing that first would warm up any shared helper state)
            bad.push(format!("\u{1}{t}\u{1}{}", private_builder_work(t)));
            for r in 0..rounds {
                for k in 0..calls.len() {
                    // each thread walks the calls from a different starting point
                    let i = (k + offset + t * 5 + r * 3) % calls.len();
                    let got = shared.run(calls[i]);
                    if got != expected[i] {
                        bad.push(format!("thread {t} call {i}: got {got:?}, fresh interpreter gives {:?}", expected[i]));
                    }
                }
            }
            bad
        }));
    }
    let mut failed = false;
    for h in handles {
        match h.join() {
            Ok(bad) => {
                for b in bad {
                    if let Some(rest) = b.strip_prefix('\u{1}') {
                        let mut it = rest.splitn(2, '\u{1}');
                        let t: usize = it.next().and_then(|x| x.parse().ok()).unwrap_or(0);
                        let got = it.next().unwrap_or("");
                        let alone = private_builder_work(t);
                        if got != alone {
                            println!("MIRI-MISMATCH thread {t}: private DigitString work gave {got:?}, single-threaded it gives {alone:?}");
                            failed = true;
                        }
                        continue;
                    }
                    println!("MIRI-MISMATCH {b}");
                    failed = true;
                }
            }
            Err(_) => {
                println!("MIRI-MISMATCH a caller thread panicked");
                failed = true;
            }
        }
    }
    if failed {
        std::process::exit(1);
    }
    println!("MIRI-OK threads={nthreads} rounds={rounds} calls={} which={which}", calls.len());
}
