#!/usr/bin/env python3
"""Regenerates MANIFEST.json. CLAIMED lists the properties whose checks exist and pass."""
import json, subprocess, sys

CLAIMED = sys.argv[1].split(",") if len(sys.argv) > 1 else ["C02","C10","C12","C14","C15"]

hooks_commits = subprocess.run(["git","-C","/repo","log","--format=%H","--grep=^verif-hooks"],capture_output=True,text=True).stdout.split()

checks_all = {
 "C02": dict(
  level_text="Seeded simulation of the replacement hand-off: the simulator owns the token stream (unique ids) and the Replace constructor (recording sink with injected partial/none/reverse/retaining consumption); conservation / exactly-once / order is checked over the recorded history against an independent splice of find_numbers (oracles S0-S6, incl. constructors that return a received token or make nested library calls, and an earlier call that died inside a caller-supplied interpreter), plus the text clause (tokenize round-trip, replace_numbers_in_text == own splice) as the fault-free configuration. Sampling over streams, sink behaviours, languages and thresholds; a clean batch is evidence, not proof.",
  note="Trusts the harness splice (~60 lines) and find_numbers as the definition of 'reported occurrences' (the property itself defines rewriting relative to them). Text clause has no fault dimension and is labelled so in evidence.",
  technique="deterministic simulation: seeded token streams + fault-injecting Replace sink, conservation/exactly-once oracle over recorded hand-off history, minimised replay files",
  design="6.1"),
 "C10": dict(
  level_text="Seeded simulation of a session cut: the rewriting pipeline is stopped after A+S (strong separator), all in-memory state is lost, and a fresh call continues with B; the oracle is restart transparency rewrite(A S B) == rewrite(A) S rewrite(B) at every sampled threshold (R1), after an aborted / crashed scan (R3) and after a complete earlier call on the same thread (R4), plus the punctuation clause (R2). Sampling; weakest fit of the family (metamorphic relation on a pure function whose failure mode is leaked per-call state).",
  note="Separator words are admitted per language only if the interpreter itself classifies them as non-number, non-linking, non-decimal-separator and not one of the French look-back triggers; trusts that filter and the pools.",
  technique="deterministic simulation: crash/restart (session cut) transparency at strong separators, seeded search with cuts biased to in-flight state, minimised replay files",
  design="6.2"),
 "C12": dict(
  level_text="Seeded search over operation histories (1-40 steps, rare bursts of 70-300 and runs of 70 000 identical operations, digit groups up to 80 digits, builders born via new / Default / mem::take, swarm weights, model-constructed refused operations as the injected fault) on the real DigitString, checked step by step against a small executable reference model and by model-independent snapshot invariants (failure atomicity, no digit lost, frozen refuses, no panic). Sampling, not proof.",
  note="Trusts the positional reference model in sim/src/c12.rs; digit arguments are ASCII digits, positions <= 14, is_range_free called with start < end; error kinds not compared.",
  technique="deterministic simulation: seeded operation histories with injected refusals against an executable reference model, full-state snapshot failure-atomicity oracle, minimised replay files",
  design="4"),
 "C14": dict(
  level_text="Seeded layers: (a) Send+Sync compile probe; (b) call histories (calls as data over every public entry point and the raw interpreter methods, incl. injected client crashes - panicking Token/Iterator/Replace/BasicAnnotate/LangInterpreter callbacks - and abandoned lazy iterators) on long-lived interpreters, every result compared with a reference table in which each call ran alone in a pristine process; the whole corpus once as one forward history, once in reverse in another process, a soak (44 short calls x 66 000 repetitions, then 20 floods of 12 000 distinct pseudo-words / 576 distinct compounds made twice each, forty probe calls after every phase) followed by a probe of the systematic families; the simulator's allocator hands the library deterministically reused addresses for its small allocations (allocator seam); every call also in two pristine processes under different locale / time zone / clock (LD_PRELOAD skew shim) / environment variables (H4), nested from caller callbacks (H5), from a destructor during unwinding (H6) and from a thread-local destructor during thread teardown (H7); a fixed probe of raw trait-method calls (formatting of caller-built numbers, predicates, morphological marker) is made straight on the interpreter before and after every call body: both must agree and the first is part of the call's result (H8); (c) schedule simulation: 2-4 real caller threads under the harness's own deterministic scheduler (one runs at a time; PRNG-chosen switches at every caller callback and library yield point; uniform / sticky / PCT policies; explicit trace in the replay file; one run in six is a dense-contention run: all callers on one splitter-language interpreter with same-length compound words) with the same oracle; (d) Miri as a second deterministic scheduler with basic-block preemption and data-race detection (slice in quick, sweep in thorough); (e) fd 1/2 captured for the whole run, and environment, live threads and panic hook compared before/after (E2). Sampling.",
  note="The controlled scheduler switches only at callbacks and verif yield points (the library has no synchronisation of its own); interleavings inside a library function are reached by the Miri layer only (24 seed-runs in quick, 288 in thorough). The reference table is trusted because each call runs alone in a fresh process with fresh interpreters.",
  technique="deterministic simulation: harness-owned deterministic scheduler over real threads + seeded call histories with injected client crashes and abandonment, per-call pristine-process reference oracle, fd capture; Miri many-seeds as second deterministic scheduler",
  design="7 and 12.2"),
 "C15": dict(
  level_text="Seeded simulation of the lazily pulled token stream: the simulator owns the source (EOF at an arbitrary instant, pull log), the tokens (hint flags) and the consumer (demand schedule, cancellation, polling past the end); oracles O1-O8: lazy == batch, prefix-consistency under cancellation, fused end, pull-count bound (nothing before first request, never beyond the second number after the returned one; also for a for_each consumer and a source with an exact size_hint), separation-hint == comma and correct predecessor shown, nan-hint exclusion, nth/count adaptors agree. Sampling.",
  note="Hint flags are not placed on whitespace/'-' glue tokens; source is fused; a panic on both lazy and batch sides is counted and skipped (totality is C03, not claimed).",
  technique="deterministic simulation: simulator-owned token source/consumer with injected EOF, cancellation and hint faults; lazy-vs-batch equivalence, bounded look-ahead and hint-contract oracles over the recorded pull history; minimised replay files",
  design="5"),
}

NA = {
 "C01": "pure round-trip over 7x10^12 spellings; no schedule, fault, stream demand or shared state for a simulator to control (input enumeration / PBT territory)",
 "C03": "pure totality claim over all UTF-8 inputs and f64 thresholds; a 'for every input' property with no history or fault dimension (fuzzing / bounded proof territory)",
 "C04": "pure ordinal round-trip over ranks and inflections; vocabulary enumeration, nothing to simulate",
 "C05": "pure decimal round-trip over (integer, fraction) spellings; input cross-product, nothing to simulate",
 "C06": "output well-formedness invariant of a pure function over all streams; no fault or schedule in it",
 "C07": "differential between two pure functions (scanner vs validator) on the same words; no fault or schedule in it",
 "C08": "10^4-pair input sweep per language on a pure function; nothing to simulate",
 "C09": "monotonicity of a pure function in a numeric parameter (threshold); nothing to simulate",
 "C11": "input symmetry (letter case) of a pure function; nothing to simulate",
 "C13": "pure differential facade vs concrete interpreter plus a table lookup; nothing to simulate",
 "C16": "input sweep over (k zeros, n) on a pure function; nothing to simulate",
 "C17": "input symmetry (whitespace) of a pure function; nothing to simulate",
 "C18": "pure function of the neighbouring tokens of 'o'; nothing to simulate",
}

checks = []
for pid in sorted(CLAIMED):
    c = checks_all[pid]
    checks.append({
        "property_id": pid,
        "quick_cmd": f"./check {pid} quick",
        "thorough_cmd": f"./check {pid} thorough",
        "evidence_file": f"/verif/evidence/{pid}.json",
        "replay_cmd_template": "./check replay {path}",
        "engine": "t2n-sim",
        "level_claimed": {"category": "exploration", "text": c["level_text"], "design_ref": f"DESIGN.md section {c['design']}"},
        "level_note": c["note"],
        "technique": c["technique"],
    })
na = [{"property_id": k, "reason": v} for k, v in sorted(NA.items())]
for pid in sorted(checks_all):
    if pid not in CLAIMED:
        na.append({"property_id": pid, "reason": "check under construction in this tree (planned per DESIGN.md); not claimed until it runs clean"})
na.sort(key=lambda x: x["property_id"])

m = {
 "version": 1,
 "setup_cmd": "./check build",
 "hooks": {
   "guard": "cargo feature verif-hooks",
   "enable": "sim/Cargo.toml depends on text2num = { path = \"/repo\", features = [\"verif-hooks\"] }; every ./check invocation runs cargo build --release --offline in /verif/sim, which recompiles /repo's working tree with the feature on",
   "baseline_off_cmd": "cd /repo && cargo test --workspace --no-fail-fast --offline",
   "source_commits": hooks_commits,
   "add_only": True,
 },
 "engines": [
   {"name": "t2n-sim", "path": "/verif/sim", "serves_properties": sorted(checks_all), "kind_free_text": "deterministic simulator (Rust): seeded PRNG, simulator-owned token sources/sinks/consumers/interpreter wrappers, fault injection, reference models, own deterministic scheduler over real threads, minimising replay; Miri layer for C14"},
 ],
 "checks": checks,
 "not_applicable": na,
 "notes": "Technique family: deterministic simulation with fault injection. 13 of 18 properties are pure input-quantified claims with nothing to simulate and are listed under not_applicable with reasons (DESIGN.md section 9). VERIF_SEED selects the global seed (default 20260926). Known findings: /verif/KNOWN_FINDINGS.txt.",
}
json.dump(m, open("/verif/MANIFEST.json","w"), indent=1, ensure_ascii=False)
print("claimed:", sorted(CLAIMED))
