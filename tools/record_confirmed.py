#!/usr/bin/env python3
"""tools/record_confirmed.py <src dir> <seeded id> <property> <change> <needs> <expected detection>
Files a seeded change whose confirmation (tools/confirm_mutant.sh) was already run and saved in <src dir>/result.txt."""
import json, os, shutil, sys
src, sid, prop, change, needs, caught = sys.argv[1:7]
lines = [l.strip() for l in open(src + "/result.txt") if l.startswith("CONFIRM ")]
ok = "confirm_rc=0" in open(src + "/result.txt").read()
if not lines or not ok:
    print("NOT RECORDED (no successful confirmation in result.txt)"); sys.exit(1)
d = f"/verif/seeded/{sid}"; os.makedirs(d, exist_ok=True)
for f in ("patch.diff", "demo.rs", "notes.md"):
    if os.path.exists(f"{src}/{f}"): shutil.copy(f"{src}/{f}", f"{d}/{f}")
ran = [l.strip()[:400] for l in open(src + "/result.txt") if l.startswith("RESULT ") or l.startswith("   violation detail")]
json.dump({"id": sid, "breaks_property": prop, "origin": "independent sub-agent given only the property text and a scratch worktree",
  "change": change, "needs_to_manifest": needs,
  "confirmed": "tools/confirm_mutant.sh in scratch worktree /tmp/wt-confirm at /repo HEAD: " + lines[-1],
  "expected_detection": caught, "ran": ran, "rebased": False}, open(d + "/meta.json", "w"), indent=1, ensure_ascii=False)
print("recorded", sid)
