#!/usr/bin/env python3
"""tools/round_table.py <round tag, e.g. r10> — table of the seeded changes of one round (from seeded/*-<tag>-*/meta.json)
inserted between <!-- R10-BEGIN --> / <!-- R10-END --> style markers in DESIGN.md."""
import glob, json, re, sys
tag = sys.argv[1]
rows = ["| seeded change | what it does | needs | result of its property's check (quick, default seed) |", "|---|---|---|---|"]
for d in sorted(glob.glob(f"/verif/seeded/*-{tag}-*/")):
    m = json.load(open(d + "meta.json"))
    rows.append(f"| {m['id']} | {m['change']} | {m['needs_to_manifest']} | {m['expected_detection']} |")
s = open("/verif/DESIGN.md").read()
T = tag.upper()
s = re.sub(rf"<!-- {T}-BEGIN -->.*?<!-- {T}-END -->", f"<!-- {T}-BEGIN -->\n" + "\n".join(rows) + f"\n<!-- {T}-END -->", s, flags=re.S)
open("/verif/DESIGN.md", "w").write(s)
print(len(rows) - 2, "rows")
