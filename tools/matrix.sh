#!/usr/bin/env bash
# tools/matrix.sh [tier] [mutant-id-glob]  — runs every seeded change against every check in an
# isolated scratch copy (/tmp/mx: a worktree of /repo + a copy of /verif with paths rewritten),
# so /repo itself is never touched. Writes seeded/MATRIX-<tier>.md. Removes the scratch when done.
set -u
tier="${1:-quick}"; glob="${2:-*}"
MX=/tmp/mx-$$
mkdir -p $MX
git -C /repo worktree add --detach $MX/repo HEAD -q || exit 3
rsync -a --exclude target --exclude replays --exclude .git /verif/ $MX/verif/
grep -rl '"/repo"' $MX/verif/sim/Cargo.toml $MX/verif/sim/probe/Cargo.toml $MX/verif/sim-miri/Cargo.toml | xargs sed -i "s|\"/repo\"|\"$MX/repo\"|"
# reuse compiled dependencies
for t in sim sim-miri; do [ -d /verif/$t/target ] && cp -r /verif/$t/target $MX/verif/$t/target; done
out=/verif/seeded/MATRIX-$tier${3:+-$3}.md
echo "| seeded change | C02 | C10 | C12 | C14 | C15 |" > $out.tmp; echo "|---|---|---|---|---|---|" >> $out.tmp
# baseline row: unchanged tree must be quiet
row="| (unchanged tree) |"
for id in C02 C10 C12 C14 C15; do
  o=$(cd $MX/verif && VERIF_DIR=$MX/verif ./check $id $tier 2>&1); c=$?
  row="$row exit $c |"
done
echo "$row" >> $out.tmp
for d in /verif/seeded/$glob/; do
  [ -f "$d/patch.diff" ] || continue
  name=$(basename $d)
  git -C $MX/repo checkout -q -- . ; git -C $MX/repo clean -fdq -e target -e Cargo.lock
  if ! git -C $MX/repo apply "$d/patch.diff" 2>/dev/null; then echo "| $name | patch does not apply |||||" >> $out.tmp; continue; fi
  touch $MX/verif/sim/build.rs   # the vocabulary / code harvest must see the changed tree
  row="| $name |"
  for id in C02 C10 C12 C14 C15; do
    o=$(cd $MX/verif && VERIF_DIR=$MX/verif ./check $id $tier 2>&1); c=$?
    orc=$(echo "$o" | grep -m1 '^violation detail' | sed -E 's/^violation detail: oracle=([^ ]+).*/\1/')
    case $c in 0) cell="-";; 1) cell="**caught** ($orc)";; *) cell="harness error (exit $c)";; esac
    row="$row $cell |"
  done
  echo "$row" >> $out.tmp
  echo "$row"
done
# must-stay-green set: every cell must be "-"
if [ "$glob" = "*" ] || [ -n "${FORCE_GREEN:-}" ]; then
  for d in /verif/seeded/green/*/; do
    [ -f "$d/patch.diff" ] || continue
    name="green/$(basename $d)"
    git -C $MX/repo checkout -q -- . ; git -C $MX/repo clean -fdq -e target -e Cargo.lock
    if ! git -C $MX/repo apply "$d/patch.diff" 2>/dev/null; then echo "| $name | patch does not apply |||||" >> $out.tmp; continue; fi
    row="| $name |"
    for id in C02 C10 C12 C14 C15; do
      o=$(cd $MX/verif && VERIF_DIR=$MX/verif ./check $id $tier 2>&1); c=$?
      case $c in 0) cell="-";; 1) cell="**FALSE ALARM**";; *) cell="harness error (exit $c)";; esac
      row="$row $cell |"
    done
    echo "$row" >> $out.tmp
    echo "$row"
  done
fi
mv $out.tmp $out
git -C /repo worktree remove --force $MX/repo; rm -rf $MX
echo "matrix written to $out"
