#!/usr/bin/env bash
# C14 layer (d): the shared-interpreter workload with real std::threads under Miri.
#   tools/miri_layer.sh <quick|thorough>            run the layer, patch evidence/C14.json
#   tools/miri_layer.sh replay <replay.json>         re-run one recorded (seed, flags) exactly
# Miri's scheduler is deterministic per -Zmiri-seed; preemption at basic-block granularity.
set -u
HERE="$(cd "$(dirname "$0")/.." && pwd)"
MIRI="$HERE/sim-miri"
export CARGO_NET_OFFLINE=true
mkdir -p "$HERE/replays"

run_one() { # which rate threads rounds seed mode -> prints output, returns miri's exit code
  (cd "$MIRI" && MIRIFLAGS="-Zmiri-seed=$5 -Zmiri-preemption-rate=$2" \
     cargo +nightly miri run --offline -- "$3" "$4" 0 "$1" "$6" 2>&1)
}

if [ "${1:-}" = "replay" ]; then
  f="$2"
  read -r which rate threads rounds seed mode < <(python3 -c "
import json,sys; d=json.load(open(sys.argv[1])); c=d['case']
print(c['which'],c['rate'],c['threads'],c['rounds'],c['miri_seed'],c.get('mode','full'))" "$f")
  out=$(run_one "$which" "$rate" "$threads" "$rounds" "$seed" "$mode"); rc=$?
  echo "$out" | grep -E "MIRI-MISMATCH|error: Undefined|error: .*[Rr]ace|panicked" | head -5
  if [ $rc -ne 0 ]; then echo "REPLAY-RESULT violation-reproduced oracle=D1-miri"; exit 1; fi
  echo "REPLAY-RESULT no-violation property=C14"; exit 0
fi

tier="${1:-quick}"
gseed="${VERIF_SEED:-20260926}"
case "$gseed" in ''|*[!0-9]*) gseed=20260926;; esac
base=$(( gseed % 100000 ))
# which:rate:seeds:threads:rounds:mode
#   which 0 de, 1 nl, 2 it: callers share that language's interpreter (and its WordSplitter);
#         mode dense = only short single-word calls, which keeps the shared splitter busiest
#   which 3: en/fr/es/pt, every entry point (text, stream, lazy, replace)
#   which 4: every caller thread constructs its own de/nl/it interpreter at the same time as the others
if [ "$tier" = "thorough" ]; then
  configs="0:0.9:48:8:3:dense 1:0.9:48:8:3:dense 2:0.9:48:8:3:dense 0:0.9:16:6:1:full 1:0.9:16:6:1:full 2:0.9:16:6:1:full 3:0.9:32:3:1:full 4:0.9:24:3:1:full 4:0.3:12:6:1:full 0:0.3:16:6:1:full 1:0.3:16:6:1:full 2:0.3:16:6:1:full 3:0.3:16:3:1:full"
else
  configs="0:0.9:4:8:3:dense 1:0.9:4:8:3:dense 2:0.9:4:8:3:dense 0:0.9:3:6:1:full 1:0.9:3:6:1:full 2:0.9:3:6:1:full 3:0.9:3:3:1:full 4:0.9:1:3:1:full"
fi
nseeds="per-config"
start=$(date +%s)
# build once (and fail as a harness error if Miri itself cannot build the crate)
if ! (cd "$MIRI" && cargo +nightly miri run --offline -- 0 0 0 3 >"$MIRI/build.log" 2>&1); then
  echo "HARNESS-ERROR: Miri layer failed to build/run its smoke test (see $MIRI/build.log)" >&2; tail -5 "$MIRI/build.log" >&2; exit 2
fi
# one Miri process per (language, preemption rate, seed), 16 at a time; each is an exactly
# repeatable execution
jobs=""
for cfg in $configs; do
  IFS=: read -r which rate n th ro mode <<<"$cfg"
  for s in $(seq "$base" "$((base+n-1))"); do jobs="$jobs$which $rate $s $th $ro $mode\n"; done
done
resdir=$(mktemp -d "$HERE/replays/.miri-XXXXXX")
printf "$jobs" | xargs -P 16 -L 1 sh -c '
  cd "'"$MIRI"'" && MIRIFLAGS="-Zmiri-seed=$2 -Zmiri-preemption-rate=$1" cargo +nightly miri run --offline -- $3 $4 0 "$0" $5 >"'"$resdir"'/$0-$1-$2-$3-$4-$5.out" 2>&1
  echo $? >"'"$resdir"'/$0-$1-$2-$3-$4-$5.rc"' 
total=0; viol=0; replay=""; detail=""; threads=0; rounds=0
for rcf in $(ls "$resdir"/*.rc | sort -V); do
  rc=$(cat "$rcf"); outf="${rcf%.rc}.out"
  if [ "$rc" = "0" ] && grep -q "MIRI-OK" "$outf"; then total=$((total+1)); continue; fi
  if [ $viol -eq 0 ]; then
    b=$(basename "${rcf%.rc}"); IFS=- read -r which rate fs threads rounds mode <<<"$b"
    detail=$(grep -E "MIRI-MISMATCH|error: Undefined|Data race|panicked" "$outf" | head -2 | tr '\n' ' ' | cut -c1-400)
    replay="$HERE/replays/C14-miri-$which-$rate-$fs-$mode.json"
    python3 - "$replay" "$which" "$rate" "$threads" "$rounds" "$fs" "$detail" "$mode" <<'PY'
import json,sys
p,which,rate,threads,rounds,seed,detail,mode=sys.argv[1:9]
json.dump({"property":"C14","layer":"miri","oracle":"D1-miri","detail":detail,
  "case":{"which":int(which),"rate":rate,"threads":int(threads),"rounds":int(rounds),"miri_seed":int(seed),"mode":mode}},open(p,"w"),indent=1)
PY
    if "$0" replay "$replay" | grep -q "violation-reproduced"; then viol=1; else
      echo "HARNESS-ERROR: Miri failure ($b) did not reproduce" >&2; rm -rf "$resdir"; exit 2
    fi
  fi
done
rm -rf "$resdir"
wall=$(( $(date +%s) - start ))
python3 - "$HERE/evidence/C14.json" "$tier" "$total" "$viol" "$wall" "$configs" "$nseeds" "$threads" "$rounds" "$base" <<'PY'
import json,sys
p,tier,total,viol,wall,configs,nseeds,threads,rounds,base=sys.argv[1:11]
try: d=json.load(open(p))
except Exception: sys.exit(0)
d.setdefault("coverage",{}).setdefault("extra",{})["miri_layer"]={
  "seed_runs_ok":int(total),"configs_which_rate_seeds_threads_rounds_mode":configs.split(),"first_miri_seed":int(base),
  "wall_s":int(wall),
  "what":"real std::thread callers sharing one set of interpreters, Miri scheduler deterministic per seed, basic-block preemption, data-race and UB detection; shipped code only (hooks off)"}
d["violations"]=int(d.get("violations",0))+int(viol)
d["wall_s"]=float(d.get("wall_s",0))+float(wall)
json.dump(d,open(p,"w"),indent=1,ensure_ascii=False)
PY
if [ $viol -ne 0 ]; then
  echo "violation detail: oracle=D1-miri $detail"
  echo "VIOLATION property=C14 replay=$replay"
  exit 1
fi
echo "miri layer: $total seed-runs ok (which:rate:seeds:threads:rounds:mode = $configs) in ${wall}s"
exit 0
