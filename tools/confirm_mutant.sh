#!/usr/bin/env bash
# tools/confirm_mutant.sh <dir with patch.diff + demo.rs> [patchfile]
# Confirms in a scratch worktree (outside /repo and /verif): builds with and without the hooks
# feature, existing suite passes with the change, demo fails with it and passes without it.
set -u
d="$1"; patch="${2:-$d/patch.diff}"
wt=/tmp/wt-confirm
if [ ! -d "$wt" ]; then git -C /repo worktree add --detach "$wt" HEAD -q || exit 3; fi
cd "$wt" && git checkout -q --detach "$(git -C /repo rev-parse HEAD)" && git checkout -- . && rm -f tests/demo.rs
export CARGO_NET_OFFLINE=true
r() { "$@" >/tmp/confirm.log 2>&1; echo $?; }
if ! git apply --check "$patch" 2>/dev/null; then echo "CONFIRM $d: patch does not apply to current HEAD"; exit 3; fi
git apply "$patch"
b1=$(r cargo build --offline); b2=$(r cargo build --offline --features verif-hooks)
t=$(r cargo test --workspace --no-fail-fast --offline)
mkdir -p tests; cp "$d/demo.rs" tests/demo.rs
dm=$(r cargo test --offline --test demo)
git checkout -- . ; 
dc=$(r cargo test --offline --test demo)
rm -f tests/demo.rs
echo "CONFIRM $d: build=$b1 build_hooks=$b2 suite_with_change=$t demo_with_change=$dm(expect!=0) demo_without=$dc(expect 0)"
[ "$b1" = 0 ] && [ "$b2" = 0 ] && [ "$t" = 0 ] && [ "$dm" != 0 ] && [ "$dc" = 0 ]
