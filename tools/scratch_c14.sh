#!/usr/bin/env bash
# tools/scratch_c14.sh <patch.diff> — one change against the C14 simulator layers in an isolated scratch copy
# (never touches /repo; for use while a background run reads /repo). Prints the exit code and any VIOLATION line.
set -u
patch="$(realpath "$1")"
MX=/tmp/mxs-$$
mkdir -p $MX
git -C /repo worktree add --detach $MX/repo HEAD -q || exit 3
rsync -a --exclude target --exclude replays --exclude .git /verif/ $MX/verif/
grep -rl '"/repo"' $MX/verif/sim/Cargo.toml $MX/verif/sim/probe/Cargo.toml $MX/verif/sim-miri/Cargo.toml | xargs sed -i "s|\"/repo\"|\"$MX/repo\"|"
[ -d /verif/sim/target ] && cp -r /verif/sim/target $MX/verif/sim/target
git -C $MX/repo apply "$patch" || { echo "patch does not apply"; git -C /repo worktree remove --force $MX/repo; rm -rf $MX; exit 3; }
touch $MX/verif/sim/build.rs
(cd $MX/verif && VERIF_DIR=$MX/verif ./check build >/dev/null 2>&1 && VERIF_DIR=$MX/verif VERIF_TIER=quick sim/target/release/t2n-sim run C14 quick 2>&1 | grep -E "^property|VIOLATION|HARNESS|violation detail" | cut -c1-400; echo "exit=${PIPESTATUS[0]}")
git -C /repo worktree remove --force $MX/repo; rm -rf $MX
