#!/usr/bin/env python3
"""tools/record_mutant.py <src dir> <seeded id> <property> <change> <needs> <expected detection> [origin]
Confirms the change with tools/confirm_mutant.sh and files it under /verif/seeded/<id>/."""
import json, os, shutil, subprocess, sys
src, sid, prop, change, needs, caught = sys.argv[1:7]
origin = sys.argv[7] if len(sys.argv) > 7 else "independent sub-agent given only the property text and a scratch worktree"
pf = src + "/patch.rebased.diff" if os.path.exists(src + "/patch.rebased.diff") else src + "/patch.diff"
r = subprocess.run(["/verif/tools/confirm_mutant.sh", src, pf], capture_output=True, text=True)
line = (r.stdout.strip().splitlines() or ["?"])[-1]
print(line)
if r.returncode != 0:
    print("NOT RECORDED"); sys.exit(1)
d = f"/verif/seeded/{sid}"; os.makedirs(d, exist_ok=True)
shutil.copy(pf, d + "/patch.diff"); shutil.copy(src + "/demo.rs", d + "/demo.rs")
if os.path.exists(src + "/notes.md"): shutil.copy(src + "/notes.md", d + "/notes.md")
json.dump({"id": sid, "breaks_property": prop, "origin": origin, "change": change, "needs_to_manifest": needs,
  "confirmed": "tools/confirm_mutant.sh in scratch worktree /tmp/wt-confirm at /repo HEAD: " + line,
  "expected_detection": caught, "rebased": pf.endswith("rebased.diff")}, open(d + "/meta.json", "w"), indent=1, ensure_ascii=False)
