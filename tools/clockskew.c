/* Clock-skew fault for pristine reference processes (C14, oracle H4): every clock_gettime()
 * result is pushed T2N_CLOCK_STEP_MS further into the future than the previous one, for every
 * clock id. A function of its arguments does not notice; anything that budgets or stamps with
 * the wall or monotonic clock does. Loaded with LD_PRELOAD into the child only. */
#define _GNU_SOURCE
#include <dlfcn.h>
#include <stdlib.h>
#include <time.h>

static long long jump_ns = 0, step_ns = -1;

int clock_gettime(clockid_t clk, struct timespec *ts) {
    static int (*real)(clockid_t, struct timespec *) = 0;
    if (!real) real = (int (*)(clockid_t, struct timespec *))dlsym(RTLD_NEXT, "clock_gettime");
    int r = real(clk, ts);
    if (step_ns < 0) {
        const char *s = getenv("T2N_CLOCK_STEP_MS");
        step_ns = s ? atoll(s) * 1000000LL : 0;
    }
    if (r == 0 && step_ns > 0) {
        jump_ns += step_ns;
        long long t = (long long)ts->tv_sec * 1000000000LL + ts->tv_nsec + jump_ns;
        ts->tv_sec = t / 1000000000LL;
        ts->tv_nsec = t % 1000000000LL;
    }
    return r;
}
