#!/usr/bin/env bash
# tools/seedrobust.sh "<seeds>" [glob] — for every seeded change, run the check of the property it breaks
# under several VERIF_SEED values (isolated scratch copy, /repo untouched). Writes seeded/SEEDS-quick.md.
set -u
seeds="${1:-1 2 3}"; glob="${2:-*}"
MX=/tmp/sr-$$
mkdir -p $MX
git -C /repo worktree add --detach $MX/repo HEAD -q || exit 3
rsync -a --exclude target --exclude replays --exclude .git /verif/ $MX/verif/
grep -rl '"/repo"' $MX/verif/sim/Cargo.toml $MX/verif/sim/probe/Cargo.toml $MX/verif/sim-miri/Cargo.toml | xargs sed -i "s|\"/repo\"|\"$MX/repo\"|"
for t in sim sim-miri; do [ -d /verif/$t/target ] && cp -r /verif/$t/target $MX/verif/$t/target; done
out=/verif/seeded/SEEDS-quick.md
echo "| seeded change | check | $(echo $seeds | sed 's/ / | /g') |" > $out.tmp
echo "|---|---|$(for s in $seeds; do printf -- '---|'; done)" >> $out.tmp
for d in /verif/seeded/$glob/; do
  [ -f "$d/patch.diff" ] && [ -f "$d/meta.json" ] || continue
  name=$(basename $d)
  id=$(python3 -c "import json,sys; print(json.load(open(sys.argv[1]))['breaks_property'])" $d/meta.json)
  case "$name" in C10-r2-m3) id=C14;; esac
  git -C $MX/repo checkout -q -- . ; git -C $MX/repo clean -fdq -e target -e Cargo.lock
  git -C $MX/repo apply "$d/patch.diff" 2>/dev/null || { echo "| $name | patch does not apply |" >> $out.tmp; continue; }
  touch $MX/verif/sim/build.rs
  row="| $name | $id |"
  for s in $seeds; do
    o=$(cd $MX/verif && VERIF_SEED=$s VERIF_DIR=$MX/verif ./check $id quick 2>&1); c=$?
    case $c in 0) cell="MISSED";; 1) cell="caught";; *) cell="exit $c";; esac
    row="$row $cell |"
  done
  echo "$row" >> $out.tmp; echo "$row"
done
mv $out.tmp $out
git -C /repo worktree remove --force $MX/repo; rm -rf $MX
echo "written $out"
