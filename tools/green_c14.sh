#!/usr/bin/env bash
# tools/green_c14.sh [out-suffix] — the must-stay-green set against the C14 simulator (layers a-c, e; the Miri
# layer is not re-run) in an isolated scratch copy, so /repo itself is never touched. Writes seeded/GREEN-C14<suffix>.md.
set -u
MX=/tmp/mxg-$$
mkdir -p $MX
git -C /repo worktree add --detach $MX/repo HEAD -q || exit 3
rsync -a --exclude target --exclude replays --exclude .git /verif/ $MX/verif/
grep -rl '"/repo"' $MX/verif/sim/Cargo.toml $MX/verif/sim/probe/Cargo.toml $MX/verif/sim-miri/Cargo.toml | xargs sed -i "s|\"/repo\"|\"$MX/repo\"|"
[ -d /verif/sim/target ] && cp -r /verif/sim/target $MX/verif/sim/target
out=/verif/seeded/GREEN-C14${1:-}.md
echo "| change | C14 (simulator layers) |" > $out.tmp; echo "|---|---|" >> $out.tmp
run() { (cd $MX/verif && VERIF_DIR=$MX/verif ./check build >/dev/null 2>&1 && VERIF_DIR=$MX/verif VERIF_TIER=quick sim/target/release/t2n-sim run C14 quick >/dev/null 2>&1); echo $?; }
echo "| (unchanged tree) | exit $(run) |" >> $out.tmp
for d in /verif/seeded/green/*/; do
  [ -f "$d/patch.diff" ] || continue
  name="green/$(basename $d)"
  git -C $MX/repo checkout -q -- . ; git -C $MX/repo clean -fdq -e target -e Cargo.lock
  if ! git -C $MX/repo apply "$d/patch.diff" 2>/dev/null; then echo "| $name | patch does not apply |" >> $out.tmp; continue; fi
  touch $MX/verif/sim/build.rs
  c=$(run)
  case $c in 0) cell="-";; 1) cell="**FALSE ALARM**";; *) cell="harness error (exit $c)";; esac
  echo "| $name | $cell |" | tee -a $out.tmp
done
mv $out.tmp $out
git -C /repo worktree remove --force $MX/repo; rm -rf $MX
echo "written $out"
