#!/usr/bin/env bash
# tools/mutest.sh <patch.diff> <check-id> [<check-id> ...]   (env TIER=quick|thorough, EXTRA="...")
# Applies a seeded change to /repo, runs the given checks, and ALWAYS reverts /repo.
set -u
patch="$(realpath "$1")"; shift
cd /verif
if [ -n "$(git -C /repo status --porcelain --untracked-files=no)" ]; then echo "/repo is dirty, refusing"; exit 3; fi
if git -C /repo apply --check "$patch" 2>/dev/null; then
  git -C /repo apply "$patch"
elif git -C /repo apply --3way "$patch" >/dev/null 2>&1 && [ -z "$(git -C /repo diff --name-only --diff-filter=U)" ]; then
  git -C /repo reset -q   # keep the merged result in the working tree only
  echo "(patch applied with 3-way merge)"
else
  git -C /repo checkout -- . 2>/dev/null; git -C /repo reset -q --hard HEAD
  echo "PATCH-DOES-NOT-APPLY $patch"; exit 3
fi
# revert and rebuild the simulator against the clean tree (a stale binary built against the change must
# never be run by hand afterwards)
trap 'git -C /repo checkout -- . ; git -C /repo clean -fdq -e target -e Cargo.lock >/dev/null 2>&1; ./check build >/dev/null 2>&1' EXIT
for id in "$@"; do
  if [ "${NOMIRI:-0}" = 1 ] && [ "$id" = C14 ]; then
    # development aid: C14 without the Miri layer (build + simulator only)
    out=$(./check build 2>&1 && VERIF_TIER="${TIER:-quick}" sim/target/release/t2n-sim run C14 "${TIER:-quick}" ${EXTRA:-} 2>&1); code=$?
  else
    out=$(./check "$id" "${TIER:-quick}" ${EXTRA:-} 2>&1); code=$?
  fi
  v=$(echo "$out" | grep -m1 '^VIOLATION' || true)
  d=$(echo "$out" | grep -m1 '^violation detail' | cut -c1-400 || true)
  echo "RESULT patch=$patch check=$id exit=$code $v"
  [ -n "$d" ] && echo "   $d"
  if [ $code -eq 2 ]; then echo "$out" | tail -5; fi
done
