#!/usr/bin/env python3
"""Inserts seeded/MATRIX-quick.md (and SEEDS-quick.md if present) into DESIGN.md section 12.4."""
import re, os
p='/verif/DESIGN.md'
s=open(p).read()
m=open('/verif/seeded/MATRIX-quick.md').read().strip()
# rows of the supplementary run (round 9 and the must-stay-green set again, with the final harness)
sup='/verif/seeded/MATRIX-quick-r9final.md'
sup_rows=[]; sup_green=[]; sup_base=''
if os.path.exists(sup):
    for l in open(sup).read().splitlines():
        if l.startswith('| C'): sup_rows.append(l)
        elif l.startswith('| green/'): sup_green.append(l)
        elif l.startswith('| (unchanged'): sup_base=l
    lines=m.splitlines()
    # insert round-9 rows before the green rows of the main matrix
    gi=next((i for i,l in enumerate(lines) if l.startswith('| green/')), len(lines))
    lines=lines[:gi]+sup_rows+lines[gi:]
    m="\n".join(lines)
rows=[l for l in m.splitlines() if l.startswith('| C')]
caught_own=0; total=0; missed=[]
for l in rows:
    cells=[c.strip() for c in l.strip('|').split('|')]
    name=cells[0]; total+=1
    if any('caught' in c for c in cells[1:]): caught_own+=1
    else: missed.append(name)
green=[l for l in m.splitlines() if l.startswith('| green/')]
green_bad=[l for l in green if 'FALSE ALARM' in l or 'harness error' in l]
summary=(f"{total} seeded changes, {caught_own} caught by at least one check in the quick tier at the default seed"
         + (f" (not caught in quick: {', '.join(missed)})" if missed else "")
         + f"; {len(green)} must-stay-green changes, {len(green)-len(green_bad)} quiet on all five checks"
         + (f" (NOT quiet: {len(green_bad)})" if green_bad else "") + ".")
block=summary+"\n\n"+m+"\n"
if sup_green:
    bad=[l for l in sup_green if 'FALSE ALARM' in l or 'harness error' in l]
    block+=f"\nThe must-stay-green set and the unchanged tree were run once more with the final harness (after the round-9 additions): unchanged tree: {sup_base.strip('| ').replace(' | ', ', ')}; {len(sup_green)-len(bad)} of {len(sup_green)} green changes quiet on all five checks.\n"
sp='/verif/seeded/SEEDS-quick.md'
if os.path.exists(sp):
    block+="\nDetection by the check of the broken property under other seeds (quick tier):\n\n"+open(sp).read().strip()+"\n"
if 'MATRIX_PLACEHOLDER' in s:
    s=s.replace('MATRIX_PLACEHOLDER', '<!-- MATRIX-BEGIN -->\n'+block+'<!-- MATRIX-END -->')
else:
    s=re.sub(r'<!-- MATRIX-BEGIN -->.*<!-- MATRIX-END -->', lambda _m: '<!-- MATRIX-BEGIN -->\n'+block+'<!-- MATRIX-END -->', s, flags=re.S)
open(p,'w').write(s)
print(summary)
