#!/usr/bin/env python3
"""Inserts seeded/MATRIX-quick.md (and SEEDS-quick.md if present) into DESIGN.md section 12.4."""
import re, os
p='/verif/DESIGN.md'
s=open(p).read()
m=open('/verif/seeded/MATRIX-quick.md').read().strip()
rows=[l for l in m.splitlines() if l.startswith('| C')]
caught_own=0; total=0; missed=[]
for l in rows:
    cells=[c.strip() for c in l.strip('|').split('|')]
    name=cells[0]; total+=1
    if any('caught' in c for c in cells[1:]): caught_own+=1
    else: missed.append(name)
green=[l for l in m.splitlines() if l.startswith('| green/')]
green_bad=[l for l in green if 'FALSE ALARM' in l or 'harness error' in l]
summary=(f"{total} seeded changes, {caught_own} caught by at least one check in the quick tier at the default seed"
         + (f" (not caught in quick: {', '.join(missed)})" if missed else "")
         + f"; {len(green)} must-stay-green changes, {len(green)-len(green_bad)} quiet on all five checks"
         + (f" (NOT quiet: {len(green_bad)})" if green_bad else "") + ".")
block=summary+"\n\n"+m+"\n"
sp='/verif/seeded/SEEDS-quick.md'
if os.path.exists(sp):
    block+="\nDetection by the check of the broken property under other seeds (quick tier):\n\n"+open(sp).read().strip()+"\n"
if 'MATRIX_PLACEHOLDER' in s:
    s=s.replace('MATRIX_PLACEHOLDER', '<!-- MATRIX-BEGIN -->\n'+block+'<!-- MATRIX-END -->')
else:
    s=re.sub(r'<!-- MATRIX-BEGIN -->.*<!-- MATRIX-END -->', lambda _m: '<!-- MATRIX-BEGIN -->\n'+block+'<!-- MATRIX-END -->', s, flags=re.S)
open(p,'w').write(s)
print(summary)
