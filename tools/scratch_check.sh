#!/usr/bin/env bash
# tools/scratch_check.sh <patch.diff> <check id> [<check id> ...] — one change against checks in an isolated scratch
# copy (never touches /repo; for use while a background run reads /repo). C14 = simulator layers only (no Miri).
set -u
patch="$(realpath "$1")"; shift
MX=/tmp/mxs-$$
mkdir -p $MX
git -C /repo worktree add --detach $MX/repo HEAD -q || exit 3
rsync -a --exclude target --exclude replays --exclude .git /verif/ $MX/verif/
grep -rl '"/repo"' $MX/verif/sim/Cargo.toml $MX/verif/sim/probe/Cargo.toml $MX/verif/sim-miri/Cargo.toml | xargs sed -i "s|\"/repo\"|\"$MX/repo\"|"
[ -d /verif/sim/target ] && cp -r /verif/sim/target $MX/verif/sim/target
git -C $MX/repo apply "$patch" || { echo "patch does not apply"; git -C /repo worktree remove --force $MX/repo; rm -rf $MX; exit 3; }
touch $MX/verif/sim/build.rs
cd $MX/verif && VERIF_DIR=$MX/verif ./check build >/dev/null 2>&1
for id in "$@"; do
  out=$(VERIF_DIR=$MX/verif VERIF_TIER=quick sim/target/release/t2n-sim run $id quick 2>&1); code=$?
  echo "RESULT patch=$patch check=$id exit=$code $(echo "$out" | grep -m1 '^VIOLATION' | sed "s|$MX||")"
  echo "$out" | grep -m1 '^violation detail' | cut -c1-400
  [ $code -eq 2 ] && echo "$out" | tail -3
done
cd /; git -C /repo worktree remove --force $MX/repo; rm -rf $MX
