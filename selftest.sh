#!/usr/bin/env bash
# Determinism self-test: per-run fingerprints must not depend on the worker count, the
# process, or the run (two runs each with 1 and 16 workers, separate processes), for
# several VERIF_SEED values. Exit 0 = identical everywhere.
set -u
HERE="$(cd "$(dirname "$0")" && pwd)"
BIN="$HERE/sim/target/release/t2n-sim"
N="${SELFTEST_RUNS:-3000}"
tmp=$(mktemp -d "$HERE/replays/.selftest-XXXXXX"); mkdir -p "$HERE/replays"
fail=0
for seed in 20260926 1 987654321; do
  for id in C02 C10 C12 C14 C15; do
    n=$N; [ "$id" = "C14" ] && n=$((N/5))
    VERIF_SEED=$seed "$BIN" hashes $id $n --workers 1  > "$tmp/$id-$seed-a" 2>/dev/null
    VERIF_SEED=$seed "$BIN" hashes $id $n --workers 16 > "$tmp/$id-$seed-b" 2>/dev/null
    VERIF_SEED=$seed "$BIN" hashes $id $n --workers 5  > "$tmp/$id-$seed-c" 2>/dev/null
    VERIF_SEED=$seed "$BIN" hashes $id $n --workers 16 > "$tmp/$id-$seed-d" 2>/dev/null
    lines=$(wc -l < "$tmp/$id-$seed-a")
    if [ "$lines" -lt "$n" ]; then echo "SELFTEST $id seed=$seed: only $lines fingerprints"; fail=1; fi
    for x in b c d; do
      if ! cmp -s "$tmp/$id-$seed-a" "$tmp/$id-$seed-$x"; then
        echo "SELFTEST-DIVERGENCE $id seed=$seed (1 worker vs variant $x):"; diff "$tmp/$id-$seed-a" "$tmp/$id-$seed-$x" | head -4; fail=1
      fi
    done
    echo "selftest $id seed=$seed runs=$n identical across 4 processes / 3 worker counts: $([ $fail -eq 0 ] && echo yes || echo NO)"
  done
done
rm -rf "$tmp"
exit $fail
